"""Process runner: rlimits, wall-clock watchdog, sanitizer report parser, step-counter log reader."""
import os
import re
import resource
import signal
import subprocess
import tempfile
import time
from concurrent.futures import ThreadPoolExecutor

NCPU = os.cpu_count() or 4


class Result(object):
    __slots__ = ('rc', 'sig', 'out', 'err', 'timed_out', 'dur', 'san', 'steps', 'step_sites', 'budget_hit', 'cmd', 'cpu')

    def __repr__(self):
        return 'Result(rc=%r sig=%r san=%r timed_out=%r steps=%r)' % (self.rc, self.sig, self.san, self.timed_out, self.steps)

    def crashed(self):
        """True when the process ended in a way no property tolerates (sanitizer report, signal, budget)."""
        return bool(self.san or self.sig or self.budget_hit)

    def symptom(self):
        if self.san:
            return self.san
        if self.budget_hit:
            return 'step budget exceeded'
        if self.timed_out:
            return 'timeout'
        if self.sig:
            return 'signal %d' % self.sig
        return 'exit %s' % self.rc


_ASAN = re.compile(r'ERROR: AddressSanitizer: ([A-Za-z0-9_-]+)')
_UBSAN = re.compile(r'runtime error: ([^\n]*)')
_LSAN = re.compile(r'ERROR: LeakSanitizer')


def _ubsan_kind(msg):
    m = msg
    for pat, k in ((r'member call on address .* which does not point to an object of type', 'vptr type mismatch'),
                   (r'downcast of address', 'vptr downcast'),
                   (r'member access within address .* which does not point', 'vptr member access'),
                   (r'null pointer', 'null pointer use'),
                   (r'signed integer overflow', 'signed integer overflow'),
                   (r'index -?\d+ out of bounds', 'index out of bounds'),
                   (r'load of value', 'invalid value load'),
                   (r'shift', 'bad shift'),
                   (r'misaligned', 'misaligned access'),
                   (r'outside the range of representable values', 'float cast overflow'),
                   (r'division by zero', 'division by zero'),
                   (r'applying (non-zero|zero) offset', 'pointer arithmetic on null'),
                   (r'pointer index expression', 'pointer overflow'),
                   (r'call to function', 'function type mismatch')):
        if re.search(pat, m):
            return k
    return re.sub(r'0x[0-9a-f]+|\d+', 'N', m)[:60]


def san_kind(err):
    """Classify a sanitizer report in stderr; None when there is none."""
    m = _ASAN.search(err)
    if m:
        k = m.group(1)
        if k == 'SEGV':
            # distinguish null deref from wild
            if re.search(r'address 0x0000000000[0-9a-f]{2}\b', err) or 'zero page' in err:
                return 'asan:SEGV null page'
            return 'asan:SEGV'
        return 'asan:' + k
    m = _UBSAN.search(err)
    if m:
        return 'ubsan:' + _ubsan_kind(m.group(1))
    if 'AddressSanitizer:DEADLYSIGNAL' in err:
        return 'asan:DEADLYSIGNAL'
    if _LSAN.search(err):
        return 'lsan:leak'
    return None


def san_frames(err, n=3):
    """First n frames under the repository, for the human-readable 'what' (never for keys)."""
    fr = []
    for m in re.finditer(r'#\d+ 0x[0-9a-f]+ in (.+?) (/\S+?:\d+)', err):
        if '/src/' in m.group(2) or '/include/' in m.group(2):
            fn = m.group(1).split('(')[0]
            fr.append('%s %s' % (fn, m.group(2).split('/src/')[-1]))
            if len(fr) >= n:
                break
    return fr


def run(cmd, cwd=None, env=None, timeout=60, stdin=None, cpu=None, mem_mb=None, steplog=False, budget=None, binary=False, maxout=4 << 20):
    """Run one case.  Watchdog `timeout` is wall-clock and generous; its firing alone is inconclusive."""
    e = dict(env or os.environ)
    slog = None
    if steplog or budget:
        fd, slog = tempfile.mkstemp(prefix='sclog', dir='/dev/shm')
        os.close(fd)
        e['SC_VERIF_LOG'] = slog
        if budget:
            e['SC_VERIF_STEP_BUDGET'] = str(int(budget))

    def pre():
        os.setsid()
        resource.setrlimit(resource.RLIMIT_CORE, (0, 0))
        if cpu:
            resource.setrlimit(resource.RLIMIT_CPU, (cpu, cpu + 2))
        if mem_mb:
            resource.setrlimit(resource.RLIMIT_AS, (mem_mb << 20, mem_mb << 20))
        resource.setrlimit(resource.RLIMIT_FSIZE, (1 << 30, 1 << 30))
    r = Result()
    r.cmd = cmd
    t0 = time.time()
    r.timed_out = False
    outf = tempfile.TemporaryFile(dir='/dev/shm')
    errf = tempfile.TemporaryFile(dir='/dev/shm')
    try:
        p = subprocess.Popen(cmd, cwd=cwd, env=e, stdin=subprocess.PIPE if stdin is not None else subprocess.DEVNULL,
                             stdout=outf, stderr=errf, preexec_fn=pre)
        r.cpu = None
        if stdin is None:
            # wait4 gives the child's own CPU time (user+sys): a load-independent clock for scaling oracles
            deadline = time.time() + timeout
            status = None
            while True:
                try:
                    pid, st, ru = os.wait4(p.pid, os.WNOHANG)
                except ChildProcessError:
                    pid, st, ru = p.pid, 0, None
                if pid == p.pid:
                    status = st
                    if ru is not None:
                        r.cpu = ru.ru_utime + ru.ru_stime
                    break
                if time.time() > deadline:
                    r.timed_out = True
                    try:
                        os.killpg(p.pid, signal.SIGKILL)
                    except OSError:
                        pass
                    try:
                        pid, status, ru = os.wait4(p.pid, 0)
                        r.cpu = ru.ru_utime + ru.ru_stime
                    except ChildProcessError:
                        status = -signal.SIGKILL
                    break
                time.sleep(0.004)
            if status is None:
                rc = -9
            elif os.WIFSIGNALED(status):
                rc = -os.WTERMSIG(status)
            else:
                rc = os.WEXITSTATUS(status)
            p.returncode = rc
        else:
            try:
                p.communicate(stdin if isinstance(stdin, bytes) else stdin.encode(), timeout=timeout)
            except subprocess.TimeoutExpired:
                r.timed_out = True
                try:
                    os.killpg(p.pid, signal.SIGKILL)
                except OSError:
                    pass
                p.wait()
            rc = p.returncode
    finally:
        outf.seek(0)
        errf.seek(0)
        out = outf.read(maxout)
        err = errf.read(maxout)
        outf.close()
        errf.close()
    r.dur = time.time() - t0
    if not binary:
        out = out.decode('utf-8', 'replace')
        err = err.decode('utf-8', 'replace')
    r.out, r.err = out, err
    r.sig = -rc if rc < 0 else 0
    r.rc = rc
    errs = err if not binary else err.decode('utf-8', 'replace')
    r.san = san_kind(errs)
    r.steps = None
    r.step_sites = {}
    r.budget_hit = (rc == 97)   # exit status 97 is reserved for the step-budget hook (the message may be cut off by maxout)
    if slog:
        try:
            with open(slog) as f:
                for line in f:
                    if line.startswith('STEPS'):
                        for tok in line.split()[1:]:
                            k, v = tok.split('=')
                            if k == 'total':
                                r.steps = int(v)
                            else:
                                r.step_sites[k] = r.step_sites.get(k, 0) + int(v)
        except (OSError, ValueError):
            pass
        try:
            os.unlink(slog)
        except OSError:
            pass
    if r.timed_out and r.sig == signal.SIGKILL:
        r.sig = 0
    return r


def pmap(fn, items, jobs=None):
    """Thread pool map (each task spawns a process, so threads suffice)."""
    items = list(items)
    if not items:
        return []
    with ThreadPoolExecutor(jobs or NCPU) as ex:
        return list(ex.map(fn, items))
