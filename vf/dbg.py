"""python3 -m vf.dbg schema.exp in.p21 [ops...]  - build the schema lib (san) and run p21read + p21mon on a file."""
import sys, os
from . import build, run, p21fam
def main():
    exp = open(sys.argv[1]).read()
    d, fail = build.schema_lib('san', exp, p21fam.HARNESSES, tag='dbg')
    if fail:
        print('BUILD FAIL', fail); return
    env = build.env(build.core('san'))
    inp = os.path.abspath(sys.argv[2])
    r = run.run([d + '/p21read_real', inp, '/dev/shm/dbg_out.p21'], env=env)
    print('p21read rc', r.rc, 'san', r.san); print(r.out[-1500:]); print(r.err[-2500:])
    if os.path.exists('/dev/shm/dbg_out.p21'):
        print(open('/dev/shm/dbg_out.p21').read()); os.unlink('/dev/shm/dbg_out.p21')
    ops = sys.argv[3:] or ['read', inp]
    r = run.run([d + '/p21mon'] + ops, env=env)
    print('p21mon rc', r.rc, 'san', r.san); print(r.out[-1500:]); print(r.err[-1500:])
main()
