"""C09 reference lexer: what an ISO 10303-21 token of each simple kind denotes, independent of stepcode.

Grammar source: doc/iso-10303-21--2002.bnf of the repository (integer, real, string, binary, enumeration,
entity_instance_name).  `judge token` = classify(kind, token) -> Exp with

  status   'valid'    grammar-valid for the kind and representable; `value` is what it denotes
           'unrep'    grammar-valid but not representable (integer beyond 64 bit, real beyond the double range,
                      enumeration item the type does not have, reference to an id no instance has)
           'invalid'  not a token of the kind; `lenient` is the value a deliberately lenient reader may give it
                      (case-folded item; C-locale number spelling of the whole token) or None
           'null'     the token `$`
           'blank'    nothing but white space (a missing value - only the delimiter rule is judged)
           'skip'     documented in-band null sentinel (integer LONG_MAX, real FLT_MIN): not judged
  cls      token class used in finding keys - a function of the token text only
  open_string  True when an apostrophe-delimited string is still open at the end of the token (the delimiter context
           is then lexically part of the string, so the "delimiter is not consumed" rule has no subject)

Values use the harness's rendering: INTEGER decimal text; REAL/NUMBER a Python float; STRING the raw literal text
(stepcode keeps strings undecoded, quotes included); BINARY the digits between the quotes; BOOLEAN/LOGICAL/ENUMERATION
the ordinal the generated code assigns; reference the file id.
"""
import re

KINDS = ['INTEGER', 'REAL', 'NUMBER', 'STRING', 'BINARY', 'BOOLEAN', 'LOGICAL', 'ENUMERATION', 'REFERENCE']
ATTR_INDEX = {k: i for i, k in enumerate(KINDS)}

ENUM_ITEMS = ['A', 'AT', 'T1', 'U_F', 'TA', 'TAFT']           # TYPE en = ENUMERATION OF (a, at, t1, u_f, ta, taft)
ORDINALS = {
    'BOOLEAN': {'F': 0, 'T': 1},                               # enum Boolean { BFalse, BTrue, BUnset }
    'LOGICAL': {'F': 0, 'T': 1, 'U': 3},                       # enum Logical { LFalse, LTrue, LUnset, LUnknown }
    'ENUMERATION': {n: i for i, n in enumerate(ENUM_ITEMS)},
}
INT_MIN, INT_MAX = -2 ** 63, 2 ** 63 - 1
INT_SENTINEL = INT_MAX                                          # SDAI_INT_NULL  = LONG_MAX
REAL_SENTINEL = 1.1754943508222875e-38                          # SDAI_REAL_NULL = FLT_MIN
REF_MAX = 2 ** 31 - 1                                           # file ids are `int`

RE_INT = re.compile(r'[+-]?[0-9]+\Z')
RE_REAL = re.compile(r'[+-]?[0-9]+\.[0-9]*(E[+-]?[0-9]+)?\Z')
RE_CNUM = re.compile(r'[+-]?([0-9]+\.?[0-9]*|\.[0-9]+)([eE][+-]?[0-9]+)?\Z')
RE_BIN = re.compile(r'"[0-3][0-9A-F]*"\Z')
RE_ENUM = re.compile(r'\.[A-Z_][A-Z0-9_]*\.\Z')
RE_ENUM_CI = re.compile(r'\.[A-Za-z_][A-Za-z0-9_]*\.\Z')
RE_REF = re.compile(r'#[0-9]+\Z')
RE_STRING_TOKEN = None  # strings are lexed by lex_string()

HEX = '0123456789ABCDEF'
# non_q_char = special | digit | space | lower | upper : every printable ASCII character but ' and \
NON_Q = set(chr(c) for c in range(0x20, 0x7f)) - set("'\\")


class Exp(object):
    __slots__ = ('kind', 'token', 'core', 'status', 'value', 'lenient', 'cls', 'open_string', 'shared')

    def __init__(self, kind, token, core, status, cls, value=None, lenient=None, open_string=False, shared=False):
        self.kind, self.token, self.core, self.status, self.cls = kind, token, core, status, cls
        self.value, self.lenient, self.open_string, self.shared = value, lenient, open_string, shared

    def __repr__(self):
        return 'Exp(%s %r %s cls=%r value=%r lenient=%r%s)' % (self.kind, self.token, self.status, self.cls, self.value, self.lenient,
                                                               ' open' if self.open_string else '')


# ---------------------------------------------------------------------------------------------- strings
def lex_string(t):
    """Lex one string literal at the start of t (t[0] must be an apostrophe).

    -> (end, problems): end = index just past the closing apostrophe, or None when the string is still open at the
    end of t; problems = set of names of grammar violations met inside the literal.
    """
    assert t[:1] == "'"
    i, n, bad = 1, len(t), set()
    while i < n:
        c = t[i]
        if c == "'":
            if t[i + 1:i + 2] == "'":
                i += 2
                continue
            return i + 1, bad
        if c == '\\':
            j = _directive(t, i)
            if j is None:
                bad.add('malformed backslash directive')
                i += 1
            else:
                i = j
            continue
        if c not in NON_Q:
            bad.add('character outside the Part 21 alphabet')
        i += 1
    return None, bad


def _hexrun(t, i, group):
    """Number of characters of the longest run of `group`-sized hex groups at t[i:]."""
    j = i
    while len(t) >= j + group and all(ch in HEX for ch in t[j:j + group]):
        j += group
    return j - i


def _directive(t, i):
    """t[i] is a reverse solidus: index after a well-formed `\\\\` or control directive, else None."""
    r = t[i + 1:i + 2]
    if r == '\\':
        return i + 2
    if r == 'S' and t[i + 2:i + 3] == '\\' and len(t) > i + 3 and (t[i + 3] in NON_Q or t[i + 3] in "'\\"):
        return i + 4                                   # page: \S\ character   (character includes ' and \)
    if r == 'P' and len(t) > i + 3 and (t[i + 2].isupper() or t[i + 2] == '_') and t[i + 3] == '\\':
        return i + 4                                   # alphabet: \P upper \
    if r == 'X':
        if t[i + 2:i + 3] == '\\':                     # arbitrary: \X\ hex hex
            if _hexrun(t, i + 3, 2) >= 2:
                return i + 5
            return None
        for d, g in (('2', 4), ('4', 8)):
            if t[i + 2:i + 4] == d + '\\':
                k = _hexrun(t, i + 4, g)
                if k >= g and t[i + 4 + k:i + 4 + k + 4] == '\\X0\\':
                    return i + 4 + k + 4
                return None
    return None


def has_open_string(core):
    """True when, lexing core left to right, an apostrophe string is still open at its end."""
    i = 0
    while True:
        q = core.find("'", i)
        if q < 0:
            return False
        end, _b = lex_string(core[q:])
        if end is None:
            return True
        i = q + end


# ---------------------------------------------------------------------------------------------- classify
def classify(kind, token, ref_ids=()):
    core = token.strip(' ')
    e = _classify(kind, token, core, ref_ids)
    if kind != 'STRING' and "'" in core:
        e.open_string = has_open_string(core)
    if len(core) >= 64:
        e.cls += ' (64 or more characters)'
    return e


def _classify(kind, token, core, ref_ids):
    def mk(status, cls, **kw):
        return Exp(kind, token, core, status, cls, **kw)
    if core == '':
        return mk('blank', 'blank')
    if core == '$':
        return mk('null', 'null')
    if core[0] == '$':
        return mk('invalid', 'characters after $', shared=True)
    if kind == 'INTEGER':
        return _integer(mk, core)
    if kind == 'REAL':
        return _real(mk, core, need_point=True)
    if kind == 'NUMBER':
        return _real(mk, core, need_point=False)
    if kind == 'STRING':
        return _string(mk, core)
    if kind == 'BINARY':
        return _binary(mk, core)
    if kind in ORDINALS:
        return _enum(mk, core, ORDINALS[kind])
    if kind == 'REFERENCE':
        return _ref(mk, core, ref_ids)
    raise ValueError(kind)


def _num_invalid_class(core):
    """Class of a token that is not even a C-locale decimal number."""
    if ' ' in core:
        return 'embedded space'
    if re.match(r'[+-]\Z', core):
        return 'sign without digits'
    if re.match(r'[+-]?\.\Z', core):
        return 'decimal point without digits'
    m = re.match(r'[+-]?([0-9]*\.?[0-9]*)[eE][+-]?([0-9]*)\Z', core)
    if m:
        if not re.search('[0-9]', m.group(1)):
            return 'exponent without mantissa digits'
        if m.group(2) == '':
            return 'exponent marker without digits'
    if re.match(r'[+-]?[0-9.]+\Z', core) and core.count('.') > 1:
        return 'several decimal points'
    if re.match(r'[+-]{2,}', core):
        return 'several signs'
    if re.match(r'[+-]?[0-9]', core):
        return 'number followed by other characters'
    if re.match(r'[+-]?\.[0-9]', core):
        return 'number followed by other characters'
    return 'not a number'


def _integer(mk, core):
    if RE_INT.match(core):
        v = int(core)
        if v == INT_SENTINEL:
            return mk('skip', 'null sentinel')
        if v < INT_MIN or v > INT_MAX:
            return mk('unrep', 'overflow beyond 64 bit')
        cls = 'integer' if core[0] != '+' else 'integer with leading +'
        return mk('valid', cls, value=str(v))
    if RE_REAL.match(core):
        return mk('invalid', 'real token for an integer')
    if RE_CNUM.match(core):
        return mk('invalid', 'C float spelling for an integer')
    return mk('invalid', _num_invalid_class(core))


def _float(core):
    try:
        return float(core)
    except (ValueError, OverflowError):
        return None


def _real(mk, core, need_point):
    is_real = bool(RE_REAL.match(core))
    is_int = bool(RE_INT.match(core))
    if is_real or (is_int and not need_point):
        v = _float(core)
        if v is None or v in (float('inf'), float('-inf')):
            return mk('unrep', 'overflow beyond the double range')
        if v == REAL_SENTINEL:
            return mk('skip', 'null sentinel')
        if is_int:
            cls = 'integer token'
        elif 'E' in core:
            cls = 'real with exponent'
        else:
            cls = 'real'
        if v == 0.0 and re.search('[1-9]', core.split('E')[0]):
            cls += ' underflowing to zero'
        return mk('valid', cls, value=v)
    if RE_CNUM.match(core):
        v = _float(core)
        if v is not None and v in (float('inf'), float('-inf')):
            v = None
        if is_int:
            cls = 'integer token for a real'
        elif 'e' in core:
            cls = 'lowercase e'
        elif '.' not in core:
            cls = 'exponent without decimal point'
        elif re.match(r'[+-]?\.', core):
            cls = 'no digit before the decimal point'
        else:
            cls = 'C float spelling'
        if v is None:
            cls = 'non-conforming number spelling beyond the double range'
        return mk('invalid', cls, lenient=v)
    return mk('invalid', _num_invalid_class(core))


def naive_open(core):
    """The other lexical reading of a malformed literal: every `\\S\\` directly before an apostrophe makes that
    apostrophe the directive's character, whatever precedes it (e.g. '\\\\S\\' read as `\\` + page directive instead of
    escaped reverse solidus + S + stray reverse solidus).  True when that reading leaves the string open."""
    i, n = 1, len(core)
    while i < n:
        if core[i] == "'":
            if core[i - 3:i] == '\\S\\' and i >= 4:
                i += 1
                continue
            if core[i + 1:i + 2] == "'":
                i += 2
                continue
            return False
        i += 1
    return True


def _string(mk, core):
    if core[0] != "'":
        return mk('invalid', 'no opening apostrophe', open_string=has_open_string(core))
    end, bad = lex_string(core)
    if 'malformed backslash directive' in bad:
        # not a token of the grammar, and where such a literal ends is not defined by it: the delimiter rule is
        # applied only when both readings close the string inside the token
        return mk('invalid', 'malformed backslash directive',
                  open_string=(end is None or naive_open(core) or (end != len(core) and has_open_string(core[end:]))))
    if end is None:
        return mk('invalid', 'unterminated string', open_string=True)
    if end != len(core):
        return mk('invalid', 'characters after the closing apostrophe', open_string=has_open_string(core[end:]))
    if bad:
        return mk('invalid', sorted(bad)[0])
    feats = []
    if "''" in core[1:-1]:
        feats.append('doubled apostrophe')
    if '\\\\' in core:
        feats.append('escaped reverse solidus')
    if re.search(r'\\[SPX]', core.replace('\\\\', '')):
        feats.append('control directive')
    cls = 'string' + (' with ' + ', '.join(feats) if feats else '')
    if core == "''":
        cls = 'empty string'
    return mk('valid', cls, value=core)


def _binary(mk, core):
    if RE_BIN.match(core):
        return mk('valid', 'binary', value=core[1:-1])
    if core == '""':
        return mk('invalid', 'empty binary')
    up = core.upper()
    if RE_BIN.match(up):
        return mk('invalid', 'lowercase hex digit', lenient=core[1:-1])
    if re.match(r'"[0-9A-F]+"\Z', up):
        return mk('invalid', 'unused-bit count not 0-3')
    if re.match(r'"?[0-9A-Fa-f]*"?\Z', core):
        return mk('invalid', 'missing quote')
    if core[0] == '"' and core.count('"') >= 2:
        return mk('invalid', 'non-hex character or junk after the binary')
    return mk('invalid', 'not a binary')


def _enum(mk, core, ordinals):
    if RE_ENUM.match(core):
        item = core[1:-1]
        if item in ordinals:
            return mk('valid', 'item', value=str(ordinals[item]))
        if item == 'UNSET':
            return mk('unrep', 'item named UNSET')
        return mk('unrep', 'unknown item')
    if RE_ENUM_CI.match(core):
        item = core[1:-1].upper()
        if item in ordinals:
            return mk('invalid', 'lowercase item', lenient=str(ordinals[item]))
        if item == 'UNSET':
            return mk('invalid', 'item named UNSET')
        return mk('invalid', 'lowercase unknown item')
    if core in ('.', '..'):
        return mk('invalid', 'dots without item')
    if re.match(r'\.?[A-Za-z_][A-Za-z0-9_]*\.?\Z', core):
        return mk('invalid', 'missing dot')
    if ' ' in core:
        return mk('invalid', 'embedded space')
    if re.match(r'\.[0-9]', core):
        return mk('invalid', 'item starting with a digit')
    return mk('invalid', 'not an enumeration')


def _ref(mk, core, ref_ids):
    if RE_REF.match(core):
        v = int(core[1:])
        if v > REF_MAX:
            return mk('unrep', 'id beyond the int range')
        if v in ref_ids:
            return mk('valid', 'instance name' if not re.match(r'#0[0-9]', core) else 'instance name with leading zeros', value=str(v))
        return mk('unrep', 'id of no instance')
    m = re.match(r'# *([+-]?[0-9]+)\Z', core)
    if m:                                           # `#` followed by what the C library reads as one int
        v = int(m.group(1))
        cls = 'sign after #' if ' ' not in core else 'space after #'
        return mk('invalid', cls, lenient=str(v) if (v in ref_ids and 0 <= v <= REF_MAX) else None)
    if re.match(r'@[0-9]+\Z', core):
        return mk('invalid', '@ instead of #')
    if core in ('#', '@'):
        return mk('invalid', '# without digits')
    if core[0] == '#':
        return mk('invalid', 'instance name followed by other characters' if re.match(r'#[0-9]', core) else 'not an instance name')
    return mk('invalid', 'not an instance name')


# ---------------------------------------------------------------------------------------------- writer grammar
def written_token_ok(kind, text):
    """Is `text` a token of the kind's grammar (what a conforming reader would accept)?"""
    if kind == 'STRING':
        if text[:1] != "'":
            return False
        end, bad = lex_string(text)
        return end == len(text) and not bad
    if kind == 'INTEGER':
        return bool(RE_INT.match(text))
    if kind == 'REAL':
        return bool(RE_REAL.match(text))
    if kind == 'NUMBER':
        return bool(RE_REAL.match(text) or RE_INT.match(text))
    if kind == 'BINARY':
        return bool(RE_BIN.match(text))
    if kind == 'REFERENCE':
        return bool(RE_REF.match(text))
    return bool(RE_ENUM.match(text))


def same_real(a, b):
    import math
    return a == b and math.copysign(1.0, a) == math.copysign(1.0, b)


def real_close(text, v, digits=15):
    """The decimal number spelled by `text` equals the double v correctly rounded to `digits` significant digits
    (the library's documented REAL_NUM_PRECISION); compared in exact decimal arithmetic, so a spelling that lies
    beyond the double range is still judged by what it denotes."""
    from decimal import Decimal, InvalidOperation, localcontext
    try:
        a = Decimal(text.replace('E+', 'E'))
    except InvalidOperation:
        return False
    if not a.is_finite():
        return False
    b = Decimal(v)
    if b == 0:
        return a == 0
    with localcontext() as c:
        c.prec = 1200
        return abs(a - b) <= Decimal(5).scaleb(b.adjusted() - digits)


def rounds_out_of_range(v, digits=15):
    """True for the few largest doubles whose `digits`-digit decimal rounding exceeds DBL_MAX."""
    return float('%.*e' % (digits - 1, v)) in (float('inf'), float('-inf'))
