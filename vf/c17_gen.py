"""Seeded EXPRESS files that stress the rule "which declarations get a generated file, and what is it called",
which is duplicated between cmake/schema_scanner and exp2cxx (C17; also used as extra workload by C12).

Features (tags): defined simple types and chains of them (no code generated), enumerations, renamed
enumerations (chains), selects, renamed selects (chains), select of select, aggregates of simple / defined /
enumeration / select / entity / aggregate types, nested aggregates, type WHERE rules, identifiers spelled in mixed case,
identifiers that are C++ keywords or look like generated suffixes (x_agg, x_ptr), long identifiers, multi-schema files
with USE FROM / REFERENCE FROM (whole schema, named items, AS renames) in either order, file names shorter / longer
than the schema name, file names with several dots.

Mask (historic: tied to a C17 finding that is fixed by now; kept so that the corpus - shared with C12 - stays the same):
  * multi-schema files of corpus() always get a file name longer than their schema names (the scanner named the
    directory after the shortest of file name / schema name, so a short file name gave every schema of the file the
    SAME directory).  The region behind the mask - every relation of file name to schema names, 1/2/3 schemas, both
    dictionary orders - is covered systematically by vf/c17_multi.py (fixed matrix + random files per seed).
"""
import random

SIMPLE_KW = ('INTEGER', 'REAL', 'NUMBER', 'STRING', 'BINARY', 'BOOLEAN', 'LOGICAL')

WORDS = ['colour', 'shape', 'kind', 'mode', 'unit', 'axis', 'node', 'edge', 'face', 'item', 'part', 'tag', 'ref', 'val', 'key', 'grp',
         'zone', 'lvl', 'pt', 'q', 'b1', 'x_y_z', 'class', 'int', 'operator', 'delete', 'template', 'union', 'register', 'double',
         'namespace', 'real_t', 'integer_value', 'set_of', 'list1', 'aggregate_x', 'select_x', 'enumeration_x', 'sdai', 'sdai_thing',
         'entity_x', 'type_x', 'schema_x', 'thing_agg', 'thing_ptr', 'thing_var_x', 'c', 'n2o', 'a_very_long_identifier_with_many_words_in_it_to_fill_buffers',
         'registry', 'instmgr', 'stepfile', 'h', 'cc', 'main', 'std', 'null', 'name', 'description', 'id']

DEFAULT_MASK = ()


class GenFile(object):
    def __init__(self, name, fname, blocks, tags):
        self.name, self.fname, self.blocks, self.tags = name, fname, blocks, set(tags)

    def text(self):
        return '\n'.join(self.blocks)


class Names(object):
    def __init__(self, rng, pfx, mixed):
        self.rng, self.pfx, self.used, self.mixed = rng, pfx, set(), mixed

    def new(self, hint=None):
        for _ in range(200):
            w = hint or self.rng.choice(WORDS)
            n = '%s_%s' % (self.pfx, w) if self.rng.random() < .8 or hint else '%s%s' % (self.pfx, w)
            if self.rng.random() < .3:
                n += str(self.rng.randint(0, 99))
            if n not in self.used:
                self.used.add(n)
                return n
            hint = None
        raise RuntimeError('name pool exhausted')

    def spell(self, n):
        """Source spelling of identifier n (EXPRESS identifiers are case-insensitive)."""
        if not self.mixed:
            return n
        r = self.rng.random()
        if r < .5:
            return n
        if r < .7:
            return n.upper()
        if r < .85:
            return n.capitalize()
        return ''.join(c.upper() if self.rng.random() < .5 else c for c in n)


class SchemaGen(object):
    """One SCHEMA block.  After build(): .text, .exports = dict(kind -> [names]) usable by a later schema."""

    def __init__(self, rng, sname, pfx, tags, mask, imports=None, import_clause='', mixed=False):
        self.rng, self.sname, self.tags, self.mask = rng, sname, tags, set(mask)
        self.N = Names(rng, pfx, mixed)
        self.imp = imports or dict(simple=[], enum=[], select=[], entity=[], aggr=[])
        self.import_clause = import_clause
        self.simple, self.enum, self.select, self.entity, self.aggr = [], [], [], [], []
        self.decl = []

    def sp(self, n):
        return self.N.spell(n)

    def bounds(self, ak):
        rng = self.rng
        if ak == 'ARRAY':
            lo = rng.choice([0, 1, 1, 2])
            return ' [%d:%d]' % (lo, lo + rng.randint(0, 4))
        r = rng.random()
        if r < .35:
            return ''
        lo = rng.choice([0, 0, 1, 2])
        return ' [%d:%s]' % (lo, rng.choice(['?', '?', str(lo + 1), str(lo + 4)]))

    def aggr_of(self, base, depth=0):
        rng = self.rng
        ak = rng.choice(['LIST', 'LIST', 'SET', 'BAG', 'ARRAY'])
        inner = base
        if depth < 2 and rng.random() < .2:
            inner = self.aggr_of(base, depth + 1)
            self.tags.add('nested_aggregate')
        extra = ''
        if ak == 'LIST' and rng.random() < .15:
            extra = 'UNIQUE '
        if ak == 'ARRAY' and rng.random() < .15 and depth == 0 and inner == base:
            extra = 'OPTIONAL '
        return '%s%s OF %s%s' % (ak, self.bounds(ak), extra, inner)

    def build(self):
        rng, N, D, T = self.rng, self.N, self.decl, self.tags
        # ---- defined simple types (no code generated for them)
        for kw in rng.sample(SIMPLE_KW, rng.randint(1, 4)):
            n = N.new()
            if rng.random() < .2:
                D.append('TYPE %s = %s;\nWHERE\n  wr1 : EXISTS(SELF);\nEND_TYPE;' % (self.sp(n), kw))
                T.add('type_where_rule')
            else:
                D.append('TYPE %s = %s; END_TYPE;' % (self.sp(n), kw))
            self.simple.append(n)
            T.add('defined_simple')
        for _ in range(rng.randint(0, 2)):
            src = rng.choice(self.simple + self.imp['simple'])
            n = N.new()
            D.append('TYPE %s = %s; END_TYPE;' % (self.sp(n), self.sp(src)))
            self.simple.append(n)
            T.add('renamed_simple')
        # ---- entity names first (selects refer to them)
        for _ in range(rng.randint(2, 5)):
            self.entity.append(N.new())
        # ---- enumerations and renames
        for _ in range(rng.randint(1, 3)):
            n = N.new()
            items = ['%s_i%d' % (n[:20], i) for i in range(rng.randint(1, 4))]
            D.append('TYPE %s = ENUMERATION OF (%s); END_TYPE;' % (self.sp(n), ', '.join(items)))
            self.enum.append(n)
            T.add('enumeration')
        own_enums = list(self.enum)
        for _ in range(rng.randint(0, 3)):
            src = rng.choice(self.enum + self.imp['enum'])
            n = N.new()
            D.append('TYPE %s = %s; END_TYPE;' % (self.sp(n), self.sp(src)))
            T.add('renamed_enum_chain' if src not in own_enums and src not in self.imp['enum'] else 'renamed_enum')
            if src in self.imp['enum']:
                T.add('renamed_enum_of_other_schema')
            self.enum.append(n)
        # ---- selects and renames
        own_sel = []
        for _ in range(rng.randint(1, 3)):
            n = N.new()
            pool = self.entity + self.simple + self.enum + self.imp['entity'] + self.imp['enum'] + own_sel + self.imp['select'] + self.aggr
            k = rng.randint(1, min(4, len(pool)))
            mem = rng.sample(pool, k)
            if any(m in own_sel or m in self.imp['select'] for m in mem):
                T.add('select_of_select')
            D.append('TYPE %s = SELECT (%s); END_TYPE;' % (self.sp(n), ', '.join(self.sp(m) for m in mem)))
            own_sel.append(n)
            self.select.append(n)
            T.add('select')
        for _ in range(rng.randint(0, 3)):
            src = rng.choice(self.select + self.imp['select'])
            n = N.new()
            D.append('TYPE %s = %s; END_TYPE;' % (self.sp(n), self.sp(src)))
            T.add('renamed_select_chain' if src not in own_sel and src not in self.imp['select'] else 'renamed_select')
            if src in self.imp['select']:
                T.add('renamed_select_of_other_schema')
            self.select.append(n)
        if 'select_named_like_enum_class' not in self.mask and rng.random() < .3:
            e = rng.choice(own_enums)
            n = e + '_var'
            if n not in N.used:
                N.used.add(n)
                D.append('TYPE %s = SELECT (%s); END_TYPE;' % (n, self.sp(self.entity[0])))
                self.select.append(n)
                T.add('select_named_like_enum_class')
        # ---- aggregates as defined types
        for _ in range(rng.randint(1, 5)):
            cands = [('simple type', list(SIMPLE_KW)), ('defined_simple', self.simple + self.imp['simple']), ('enum', self.enum + self.imp['enum']),
                     ('select', self.select + self.imp['select']), ('entity', self.entity + self.imp['entity']), ('aggregate_type', self.aggr + self.imp['aggr'])]
            cands = [c for c in cands if c[1]]
            kind, pool = rng.choice(cands)
            base = rng.choice(pool)
            n = N.new()
            D.append('TYPE %s = %s; END_TYPE;' % (self.sp(n), self.aggr_of(base if kind == 'simple type' else self.sp(base))))
            self.aggr.append(n)
            T.add('aggregate_of_' + kind.replace(' ', '_'))
        for _ in range(rng.randint(0, 1)):
            if self.aggr:
                src = rng.choice(self.aggr)
                n = N.new()
                D.append('TYPE %s = %s; END_TYPE;' % (self.sp(n), self.sp(src)))
                self.aggr.append(n)
                T.add('renamed_aggregate')
        rng.shuffle(D)     # declaration order is free in EXPRESS; forward references stress the passes of exp2cxx
        # ---- entities
        E = []
        alltypes = self.simple + self.enum + self.select + self.aggr + self.imp['simple'] + self.imp['enum'] + self.imp['select'] + self.imp['aggr']
        for i, en in enumerate(self.entity):
            sup = ''
            pool = self.entity[:i] + self.imp['entity']
            if pool and rng.random() < .4:
                s = rng.choice(pool)
                sup = '\n  SUBTYPE OF (%s)' % self.sp(s)
                if s in self.imp['entity']:
                    T.add('subtype_of_entity_of_other_schema')
            lines = ['ENTITY %s%s;' % (self.sp(en), sup)]
            for j in range(rng.randint(1, 4)):
                r = rng.random()
                if r < .5:
                    ty = self.sp(rng.choice(alltypes))
                elif r < .65:
                    ty = self.sp(rng.choice(self.entity + self.imp['entity']))
                elif r < .8:
                    ty = rng.choice(SIMPLE_KW)
                else:
                    b = rng.choice(alltypes + self.entity + list(SIMPLE_KW))
                    ty = self.aggr_of(b if b in SIMPLE_KW else self.sp(b))
                lines.append('  %s_a%d : %s%s;' % (en[:24], j, 'OPTIONAL ' if rng.random() < .3 else '', ty))
            lines.append('END_ENTITY;')
            E.append('\n'.join(lines))
        head = 'SCHEMA %s;' % self.sname
        if self.import_clause:
            head += '\n' + self.import_clause
        self.text = '\n\n'.join([head] + D + E + ['END_SCHEMA;']) + '\n'
        self.exports = dict(simple=list(self.simple), enum=list(self.enum), select=list(self.select), entity=list(self.entity), aggr=list(self.aggr))
        return self


def _schema_name(rng, base):
    style = rng.random()
    if style < .4:
        return base
    if style < .6:
        return base + '_schema'
    if style < .8:
        return base.capitalize() + '_Model'       # mixed case in the source
    return base + '_with_a_rather_long_schema_name_%d' % rng.randint(0, 9)


def gen_file(rng, name, mask=DEFAULT_MASK):
    tags = set()
    mixed = rng.random() < .4
    if mixed:
        tags.add('mixed_case_spelling')
    multi = rng.random() < .4
    if not multi:
        sname = _schema_name(rng, name)
        g = SchemaGen(rng, sname, 'k', tags, mask, mixed=mixed).build()
        blocks = [g.text]
        r = rng.random()
        if r < .3:
            fname = sname.lower() + '.exp'
        elif r < .5:
            fname = 'm%d.exp' % rng.randint(0, 9)
            tags.add('file_name_shorter_than_schema_name')
        elif r < .7:
            fname = name + '.v2.final.exp'
            tags.add('file_name_with_dots')
        elif r < .85:
            fname = name.upper() + '_FILE.EXP'
            tags.add('file_name_upper_case')
        else:
            fname = name + '_a_long_descriptive_file_name_for_the_schema.exp'
        tags.add('single_schema')
        return GenFile(name, fname, blocks, tags)
    # ---- two or three schemas, later ones import from the first
    tags.add('multi_schema')
    n = 2 if rng.random() < .75 else 3
    names = []
    for i in range(n):
        names.append(_schema_name(rng, '%s_%s' % (name, 'abc'[i])))
    first = SchemaGen(rng, names[0], 'a', tags, mask, mixed=mixed).build()
    gens = [first]
    for i in range(1, n):
        ex = first.exports
        style = rng.random()
        imports = dict(simple=[], enum=[], select=[], entity=[], aggr=[])
        if style < .3:
            clause = 'USE FROM %s;' % names[0]
            imports = {k: list(v) for k, v in ex.items()}
            tags.add('use_whole_schema')
        else:
            kw = 'USE' if style < .7 else 'REFERENCE'
            items = []
            for k in ('enum', 'select', 'entity', 'simple', 'aggr'):
                for x in rng.sample(ex[k], min(len(ex[k]), rng.randint(0, 2))):
                    items.append((k, x))
            if not items:
                items = [('entity', ex['entity'][0])]
            parts = []
            for k, x in items:
                if rng.random() < .25 and kw == 'REFERENCE' or (rng.random() < .15):
                    alias = 'al%d_%s' % (i, x[:20])
                    parts.append('%s AS %s' % (x, alias))
                    imports[k].append(alias)
                    tags.add('import_with_rename')
                else:
                    parts.append(x)
                    imports[k].append(x)
            clause = '%s FROM %s (%s);' % (kw, names[0], ', '.join(parts))
            tags.add('use_items' if kw == 'USE' else 'reference_items')
        gens.append(SchemaGen(rng, names[i], 'bcd'[i - 1], tags, mask, imports=imports, import_clause=clause, mixed=mixed).build())
    order = list(gens)
    if rng.random() < .4:
        order.reverse()
        tags.add('importing_schema_first')
    fname = name + '_file_with_several_schemas_and_a_name_longer_than_all_of_them.exp'
    return GenFile(name, fname, [g.text for g in order], tags)


def corpus(seed, n, prefix='g', mask=DEFAULT_MASK):
    out = []
    for i in range(n):
        rng = random.Random('c17gen/%s/%d/%d' % (prefix, seed, i))
        out.append(gen_file(rng, '%s%d_%d' % (prefix, seed, i), mask))
    return out


# ---------------------------------------------------------------------------------------------- fixed probes
def probes():
    P = []
    # two schemas in a file whose name is shorter than both schema names
    P.append(GenFile('multi_schema_short_file_name', 'ms.exp', [
        'SCHEMA first_probe_schema;\nTYPE fa = ENUMERATION OF (fa1, fa2); END_TYPE;\nENTITY fe; x : fa; END_ENTITY;\nEND_SCHEMA;\n',
        'SCHEMA second_probe_schema;\nUSE FROM first_probe_schema (fe);\nENTITY se SUBTYPE OF (fe); y : INTEGER; END_ENTITY;\nEND_SCHEMA;\n'],
        ['multi_schema', 'file_name_shorter_than_schema_name']))
    # select whose name equals the generated class name of an enumeration
    P.append(GenFile('select_named_like_enum_class', 'select_named_like_enum_class.exp', [
        'SCHEMA name_clash_probe;\nTYPE tone = ENUMERATION OF (lo, hi); END_TYPE;\nENTITY thing; t : tone; END_ENTITY;\n'
        'TYPE tone_var = SELECT (thing); END_TYPE;\nENTITY user; s : tone_var; END_ENTITY;\nEND_SCHEMA;\n'],
        ['select_named_like_enum_class']))
    # two schemas that import from each other: whichever exp2cxx generates first has to be generated in several passes
    P.append(GenFile('mutually_importing_schemas', 'mutually_importing_schemas_probe_file.exp', [
        'SCHEMA mutual_one;\nREFERENCE FROM mutual_two (two_kind, two_base);\nTYPE one_kind = ENUMERATION OF (o1, o2); END_TYPE;\n'
        'ENTITY one_base; k : two_kind; END_ENTITY;\nENTITY one_sub SUBTYPE OF (two_base); j : one_kind; END_ENTITY;\nEND_SCHEMA;\n',
        'SCHEMA mutual_two;\nREFERENCE FROM mutual_one (one_kind, one_base);\nTYPE two_kind = ENUMERATION OF (t1, t2); END_TYPE;\n'
        'ENTITY two_base; k : one_kind; END_ENTITY;\nENTITY two_sub SUBTYPE OF (one_base); j : two_kind; END_ENTITY;\nEND_SCHEMA;\n'],
        ['multi_schema', 'mutual_import']))
    return P
