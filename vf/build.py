"""Builds of /repo's *current working tree* (never a snapshot), cached by content hash.

Flavours (DESIGN.md 1.1):
  san    gcc ASan+UBSan fatal, Debug, hooks on      - runtime libraries + C05/C06
  plain  baseline RelWithDebInfo flags, hooks on    - EXPRESS tool behaviour checks
  fuzz   clang-14 fuzzer-no-link+ASan+UBSan         - C05 thorough only
Build dirs live under $VERIF_WORK (default /var/tmp/stepcode-verif).
"""
import hashlib
import os
import shutil
import subprocess
import sys
import time
import fcntl

REPO = os.environ.get('VERIF_REPO', '/repo')
VERIF = os.path.dirname(os.path.dirname(os.path.abspath(__file__)))
WORK = os.environ.get('VERIF_WORK', '/var/tmp/stepcode-verif')
GUARD = 'STEPCODE_VERIF'
NCPU = os.cpu_count() or 4

# -fno-sanitize=alignment: the bundled Judy array (src/cllazyfile/judy.c) loads 8-byte values from byte-aligned node slots by
# design (it targets platforms that permit unaligned access); flagging every lazy-loader run on files with > ~30 instances would
# be a policy stricter than what the code legitimately does (DESIGN.md 8.5).  No property quantifies over alignment.
SAN_FLAGS = '-O1 -g -fno-omit-frame-pointer -fsanitize=address,undefined -fno-sanitize=alignment -fno-sanitize-recover=all'
FLAVOURS = {
    'san': dict(cc='gcc', cxx='g++', btype='Debug',
                cflags=SAN_FLAGS + ' -D%s -Wno-error' % GUARD),
    'plain': dict(cc='gcc', cxx='g++', btype='RelWithDebInfo',
                  cflags='-D%s -Wno-error' % GUARD),
    'fuzz': dict(cc='clang-14', cxx='clang++-14', btype='Debug',
                 cflags='-O1 -g -fno-omit-frame-pointer -fsanitize=fuzzer-no-link,address,undefined '
                        '-fno-sanitize=object-size,function -fno-sanitize-recover=all -D%s -Wno-error' % GUARD),
}
# flags used to compile generated schema code + harnesses against a flavour
SCH_FLAGS = {
    'san': '-std=c++11 -O0 -g -fno-omit-frame-pointer -fsanitize=address,undefined -fno-sanitize=alignment -fno-sanitize-recover=all -D%s -w' % GUARD,
    'plain': '-std=c++11 -O0 -g -D%s -w' % GUARD,
    'fuzz': '-std=c++11 -O1 -g -fno-omit-frame-pointer -fsanitize=fuzzer-no-link,address,undefined '
            '-fno-sanitize=object-size,function -fno-sanitize-recover=all -D%s -w' % GUARD,
}


class BuildError(Exception):
    pass


def _walk_files(root, rel):
    p = os.path.join(root, rel)
    if os.path.isfile(p):
        yield rel
        return
    for d, dirs, files in os.walk(p):
        dirs[:] = sorted(x for x in dirs if x not in ('.git', '_build', '__pycache__'))
        for f in sorted(files):
            yield os.path.relpath(os.path.join(d, f), root)


_tree_hash_cache = {}


def tree_hash():
    """SHA-256 over the content of every source file of the working tree that can reach a binary."""
    if 'h' in _tree_hash_cache:
        return _tree_hash_cache['h']
    h = hashlib.sha256()
    n = 0
    for rel in ('CMakeLists.txt', 'cmake', 'include', 'src', 'data/CMakeLists.txt'):
        for f in _walk_files(REPO, rel):
            fp = os.path.join(REPO, f)
            try:
                with open(fp, 'rb') as fh:
                    data = fh.read()
            except OSError:
                continue
            h.update(f.encode() + b'\0' + hashlib.sha256(data).digest())
            n += 1
    _tree_hash_cache['h'] = h.hexdigest()
    _tree_hash_cache['n'] = n
    return _tree_hash_cache['h']


def _lock(name):
    os.makedirs(WORK, exist_ok=True)
    f = open(os.path.join(WORK, name + '.lock'), 'w')
    fcntl.flock(f, fcntl.LOCK_EX)
    return f


def _run(cmd, cwd, log, env=None):
    with open(log, 'ab') as lf:
        lf.write(('\n$ ' + (cmd if isinstance(cmd, str) else ' '.join(cmd)) + '\n').encode())
        lf.flush()
        r = subprocess.run(cmd, cwd=cwd, stdout=lf, stderr=subprocess.STDOUT, shell=isinstance(cmd, str), env=env)
    return r.returncode


def _prune(prefix, keep, min_age_s=3 * 3600):
    """LRU: keep at most `keep` directories whose name starts with prefix - but never remove one used in the last
    `min_age_s` seconds (another check running concurrently may be executing binaries from it)."""
    try:
        ds = [os.path.join(WORK, d) for d in os.listdir(WORK) if d.startswith(prefix) and not d.endswith('.lock')
              and os.path.isdir(os.path.join(WORK, d))]
    except OSError:
        return
    now = time.time()

    def mt(p):
        try:
            return os.path.getmtime(p)
        except OSError:
            return 0
    ds.sort(key=mt, reverse=True)
    for p in ds[keep:]:
        if now - mt(p) > min_age_s:
            shutil.rmtree(p, ignore_errors=True)


def core(flavour):
    """Return the build directory of the given flavour for the current tree (building it if needed)."""
    fl = FLAVOURS[flavour]
    key = hashlib.sha256((flavour + repr(sorted(fl.items())) + tree_hash()).encode()).hexdigest()[:16]
    name = 'core-%s-%s' % (flavour, key)
    bdir = os.path.join(WORK, name)
    lk = _lock('core-' + flavour)
    try:
        if os.path.exists(os.path.join(bdir, '.ok')):
            os.utime(bdir, None)
            return bdir
        shutil.rmtree(bdir, ignore_errors=True)
        tmp = bdir + '.tmp'
        shutil.rmtree(tmp, ignore_errors=True)
        os.makedirs(tmp)
        log = os.path.join(tmp, 'verif-build.log')
        t0 = time.time()
        cmd = ['cmake', '-G', 'Ninja', REPO, '-DCMAKE_BUILD_TYPE=' + fl['btype'], '-DSC_BUILD_SCHEMAS=',
               '-DSC_ENABLE_TESTING=OFF', '-DCMAKE_C_COMPILER=' + fl['cc'], '-DCMAKE_CXX_COMPILER=' + fl['cxx'],
               '-DCMAKE_C_FLAGS=' + fl['cflags'], '-DCMAKE_CXX_FLAGS=' + fl['cflags']]
        env = dict(os.environ)
        env['ASAN_OPTIONS'] = 'detect_leaks=0'
        if _run(cmd, tmp, log, env) != 0:
            raise BuildError('cmake failed for flavour %s, see %s' % (flavour, log))
        if _run(['ninja', '-j', str(NCPU)], tmp, log, env) != 0:
            raise BuildError('ninja failed for flavour %s, see %s' % (flavour, log))
        # the build dir is referenced by absolute path in nothing we use except rpath of bin/*;
        # cmake's RPATH points at tmp/lib, so callers always set LD_LIBRARY_PATH (see env()).
        open(os.path.join(tmp, '.ok'), 'w').write('%s %.1fs\n' % (tree_hash(), time.time() - t0))
        os.rename(tmp, bdir)
        _prune('core-%s-' % flavour, 3, 6 * 3600)
        sys.stderr.write('[build] %s built in %.1fs\n' % (name, time.time() - t0))
        return bdir
    finally:
        lk.close()


def env(bdir, extra=None):
    e = dict(os.environ)
    e['LD_LIBRARY_PATH'] = os.path.join(bdir, 'lib') + (':' + e['LD_LIBRARY_PATH'] if e.get('LD_LIBRARY_PATH') else '')
    e['ASAN_OPTIONS'] = 'abort_on_error=1:detect_leaks=0:allocator_may_return_null=1:handle_abort=1:detect_stack_use_after_return=0'
    e['UBSAN_OPTIONS'] = 'print_stacktrace=1:halt_on_error=1'
    for k in ('SC_VERIF_LOG', 'SC_VERIF_STEP_BUDGET'):
        e.pop(k, None)
    if extra:
        e.update(extra)
    return e


def inc_flags(bdir):
    incs = ['.', REPO + '/include', bdir + '/include', REPO + '/src/cldai', REPO + '/src/cleditor',
            REPO + '/src/clutils', REPO + '/src/clstepcore', REPO + '/src/cllazyfile', REPO + '/src/base',
            REPO + '/include/cllazyfile', REPO + '/include/clstepcore', REPO + '/include/cleditor', REPO + '/include/cldai',
            REPO + '/include/clutils', REPO + '/src/test/p21read']
    return ' '.join('-I' + i for i in incs)


def link_flags(bdir, lazy=False):
    libs = '-lstepeditor -lstepcore -lstepdai -lsteputils'
    if lazy:
        libs = '-lsteplazyfile ' + libs
    return '-L%s/lib %s -Wl,-rpath,%s/lib' % (bdir, libs, bdir)


def _harness_hash(names):
    h = hashlib.sha256()
    for n in sorted(names):
        p = n if os.path.isabs(n) else os.path.join(VERIF, 'harness', n)
        with open(p, 'rb') as f:
            h.update(n.encode() + b'\0' + f.read())
    return h.hexdigest()


def compile_cmd(flavour):
    return (FLAVOURS[flavour]['cxx'], SCH_FLAGS[flavour])


def schema_lib(flavour, exp_text, harnesses=(), lazy=False, keep=160, tag=''):
    """exp2cxx(exp_text) -> libsch.so, plus each harness/<name>.cc linked against it.

    Returns (dir, None) or (None, reason-dict).  Cached by (core key, schema text, harness sources).
    """
    bdir = core(flavour)
    cxx, flags = compile_cmd(flavour)
    hk = hashlib.sha256((os.path.basename(bdir) + '\0' + exp_text + '\0' + _harness_hash(harnesses) + str(lazy)).encode()).hexdigest()[:20]
    d = os.path.join(WORK, 'sch-%s-%s' % (flavour, hk))
    if os.path.exists(os.path.join(d, '.ok')):
        try:
            os.utime(d, None)
        except OSError:
            pass
        return d, None
    if os.path.exists(os.path.join(d, '.fail')):
        import json
        return None, json.load(open(os.path.join(d, '.fail')))
    import uuid
    tmp = d + '.tmp' + uuid.uuid4().hex[:10]
    shutil.rmtree(tmp, ignore_errors=True)
    os.makedirs(tmp)
    with open(os.path.join(tmp, 's.exp'), 'w') as f:
        f.write(exp_text)
    e = env(bdir)
    r = subprocess.run([bdir + '/bin/exp2cxx', 's.exp'], cwd=tmp, env=e, capture_output=True, text=True, errors='replace')
    fail = None
    if r.returncode != 0:
        fail = dict(stage='exp2cxx', rc=r.returncode, err=(r.stderr or '')[-3000:], out=(r.stdout or '')[-500:])
    else:
        srcs = [f for f in os.listdir(tmp) if f.endswith('.cc') and ('_unity_' in f or f in ('SdaiAll.cc', 'compstructs.cc', 'schema.cc')
                                                                        or (f.startswith('Sdai') and f.count('.') <= 2 and '_unity_' not in f))]
        # Sdai<S>.cc, Sdai<S>.init.cc, Sdai<S>_unity_entities.cc, Sdai<S>_unity_types.cc, SdaiAll.cc, compstructs.cc, schema.cc
        inc = inc_flags(bdir)
        procs = []
        for s in srcs:
            o = s[:-3] + '.o'
            procs.append((s, subprocess.Popen('%s %s -fPIC -DSC_SDAI_UNITY_BUILD %s -c %s -o %s' % (cxx, flags, inc, s, o),
                                              shell=True, cwd=tmp, stdout=subprocess.PIPE, stderr=subprocess.STDOUT, text=True)))
        for h in harnesses:
            hp = h if os.path.isabs(h) else os.path.join(VERIF, 'harness', h)
            o = os.path.basename(h)[:-3] + '.ho'
            procs.append((h, subprocess.Popen('%s %s -fPIC %s -c %s -o %s' % (cxx, flags, inc, hp, o),
                                              shell=True, cwd=tmp, stdout=subprocess.PIPE, stderr=subprocess.STDOUT, text=True)))
        for s, p in procs:
            out, _ = p.communicate()
            if p.returncode != 0 and fail is None:
                fail = dict(stage='compile', src=s, rc=p.returncode, err=out[-3000:])
        if fail is None:
            objs = ' '.join(s[:-3] + '.o' for s in srcs)
            r = subprocess.run('%s %s -shared -fPIC -o libsch.so %s %s' % (cxx, flags, objs, link_flags(bdir, lazy)),
                               shell=True, cwd=tmp, capture_output=True, text=True)
            if r.returncode != 0:
                fail = dict(stage='link-lib', rc=r.returncode, err=r.stderr[-3000:])
        if fail is None:
            for h in harnesses:
                b = os.path.basename(h)[:-3]
                fz = ' -fsanitize=fuzzer' if (flavour == 'fuzz' and b.startswith('fuzz')) else ''
                r = subprocess.run('%s %s%s -o %s %s.ho -L. -lsch %s -Wl,-rpath,\\$ORIGIN' % (cxx, flags, fz, b, b, link_flags(bdir, lazy)),
                                   shell=True, cwd=tmp, capture_output=True, text=True)
                if r.returncode != 0:
                    fail = dict(stage='link-harness', src=h, rc=r.returncode, err=r.stderr[-3000:])
                    break
        for f in os.listdir(tmp):
            if f.endswith('.o') or f.endswith('.ho'):
                os.unlink(os.path.join(tmp, f))
    if fail is not None:
        import json
        json.dump(fail, open(os.path.join(tmp, '.fail'), 'w'))
    else:
        open(os.path.join(tmp, '.ok'), 'w').write('ok')
    try:
        os.rename(tmp, d)
    except OSError:
        shutil.rmtree(tmp, ignore_errors=True)  # someone else got there first
    if tag == '' and keep:
        _prune('sch-', keep)
    if fail is not None:
        return None, fail
    return d, None


def simple_harness(flavour, name, lazy=False, extra=''):
    """Compile harness/<name>.cc against the core libs only (no generated schema)."""
    bdir = core(flavour)
    cxx, flags = compile_cmd(flavour)
    hk = hashlib.sha256((os.path.basename(bdir) + _harness_hash([name]) + extra).encode()).hexdigest()[:20]
    d = os.path.join(WORK, 'har-%s-%s' % (flavour, hk))
    b = os.path.join(d, name[:-3])
    if os.path.exists(b):
        os.utime(d, None)
        return b
    lk = _lock('har')
    try:
        if os.path.exists(b):
            return b
        os.makedirs(d, exist_ok=True)
        r = subprocess.run('%s %s %s %s -o %s.tmp %s %s && mv %s.tmp %s' % (cxx, flags, extra, inc_flags(bdir), b,
                           os.path.join(VERIF, 'harness', name), link_flags(bdir, lazy), b, b),
                           shell=True, cwd=d, capture_output=True, text=True)
        if r.returncode != 0:
            raise BuildError('harness %s failed to compile: %s' % (name, r.stderr[-3000:]))
        _prune('har-', 12)
        return b
    finally:
        lk.close()


def parallel_schema_libs(flavour, texts, harnesses=(), lazy=False, jobs=None):
    """Build many schema libs concurrently.  Returns list of (dir|None, fail|None) in order."""
    from concurrent.futures import ThreadPoolExecutor
    core(flavour)
    jobs = jobs or max(2, NCPU // 3)
    uniq = list(dict.fromkeys(texts))
    with ThreadPoolExecutor(jobs) as ex:
        got = dict(zip(uniq, ex.map(lambda t: schema_lib(flavour, t, harnesses, lazy, tag='batch'), uniq)))
    res = [got[t] for t in texts]
    _prune('sch-', 600)
    return res


def scanner(flavour):
    """Stand-alone build of cmake/schema_scanner against a core build (as the top-level build does)."""
    bdir = core(flavour)
    d = os.path.join(bdir, 'verif_scanner')
    exe = os.path.join(bdir, 'bin', 'schema_scanner')   # SC_Outdirs.cmake puts it into <SC_BUILDDIR>/bin
    lk = _lock('scanner-' + flavour)
    try:
        if os.path.exists(exe):
            return exe
        shutil.rmtree(d, ignore_errors=True)
        os.makedirs(d)
        fl = FLAVOURS[flavour]
        log = os.path.join(d, 'build.log')
        cmd = ['cmake', '-G', 'Ninja', REPO + '/cmake/schema_scanner', '-DSC_ROOT=' + REPO, '-DSC_BUILDDIR=' + bdir,
               '-DCALLED_FROM=STEPCODE_CMAKELISTS', '-DCMAKE_BUILD_TYPE=' + fl['btype'],
               '-DCMAKE_C_COMPILER=' + fl['cc'], '-DCMAKE_CXX_COMPILER=' + fl['cxx'],
               '-DCMAKE_C_FLAGS=' + fl['cflags'], '-DCMAKE_CXX_FLAGS=' + fl['cflags']]
        if _run(cmd, d, log) != 0 or _run(['ninja', '-j', str(NCPU)], d, log) != 0:
            raise BuildError('schema_scanner build failed, see ' + log)
        if not os.path.exists(exe):
            raise BuildError('schema_scanner binary missing, see ' + log)
        return exe
    finally:
        lk.close()


if __name__ == '__main__':
    for fl in sys.argv[1:] or ['san', 'plain']:
        print(fl, core(fl))
