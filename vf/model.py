"""Structured EXPRESS schema model: ground truth for every oracle that needs "what the schema says".

Only the data part (types, entities) is modelled here; algorithmic EXPRESS (functions, rules, expressions)
used by the EXPRESS-tool checks lives in gen_rich.py.
"""

SIMPLE = ('INTEGER', 'REAL', 'NUMBER', 'STRING', 'BINARY', 'BOOLEAN', 'LOGICAL')


class T(object):
    """Type expression.  kind in SIMPLE | 'named' | 'entity' | 'aggr'."""
    __slots__ = ('kind', 'name', 'akind', 'lo', 'hi', 'unique', 'optional', 'elem')

    def __init__(self, kind, name=None, akind=None, lo=None, hi=None, unique=False, optional=False, elem=None):
        self.kind, self.name, self.akind, self.lo, self.hi = kind, name, akind, lo, hi
        self.unique, self.optional, self.elem = unique, optional, elem

    def text(self):
        if self.kind in SIMPLE:
            return self.kind
        if self.kind in ('named', 'entity'):
            return self.name
        b = ''
        if self.lo is not None or self.akind == 'ARRAY':
            b = ' [%s:%s]' % (self.lo if self.lo is not None else 0, '?' if self.hi is None else self.hi)
        return '%s%s OF %s%s%s' % (self.akind, b, 'OPTIONAL ' if self.optional else '', 'UNIQUE ' if self.unique else '', self.elem.text())

    def shape(self, schema=None):
        """Coarse shape used in violation keys and coverage tags, e.g. 'LIST OF STRING', 'select', 'enum'."""
        if self.kind in SIMPLE:
            return self.kind
        if self.kind == 'entity':
            return 'entity'
        if self.kind == 'named':
            if schema is None:
                return 'named'
            td = schema.type(self.name)
            if td.kind == 'simple':
                return 'defined(' + td.base.shape(schema) + ')'
            if td.kind == 'enum':
                return 'enum'
            if td.kind == 'select':
                return 'select'
            return 'named'
        return '%s OF %s%s' % (self.akind, 'OPTIONAL ' if self.optional else '', self.elem.shape(schema))


def INT(): return T('INTEGER')
def REAL(): return T('REAL')
def STR(): return T('STRING')
def NAMED(n): return T('named', n)
def ENT(n): return T('entity', n)
def AGG(akind, elem, lo=None, hi=None, unique=False, optional=False): return T('aggr', akind=akind, lo=lo, hi=hi, unique=unique, optional=optional, elem=elem)


class TypeDef(object):
    """kind: 'simple' (base: T, possibly aggregate or named), 'enum' (items), 'select' (members: names)."""

    def __init__(self, name, kind, base=None, items=None, members=None, where=None):
        self.name, self.kind, self.base, self.items, self.members = name, kind, base, items or [], members or []
        self.where = where or []

    def text(self):
        if self.kind == 'simple':
            b = self.base.text()
        elif self.kind == 'enum':
            b = 'ENUMERATION OF (%s)' % ', '.join(self.items)
        else:
            b = 'SELECT (%s)' % ', '.join(self.members)
        w = ''
        if self.where:
            w = '\nWHERE\n' + ''.join('  %s;\n' % x for x in self.where)
            return 'TYPE %s = %s;%sEND_TYPE;' % (self.name, b, w)
        return 'TYPE %s = %s; END_TYPE;' % (self.name, b)


class Attr(object):
    def __init__(self, name, type, optional=False):
        self.name, self.type, self.optional = name, type, optional


class Derived(object):
    """DERIVE attr.  redeclares = (super_entity, attr_name) when written SELF\\sup.attr"""

    def __init__(self, name, type, expr, redeclares=None):
        self.name, self.type, self.expr, self.redeclares = name, type, expr, redeclares


class Inverse(object):
    """INVERSE name : [SET|BAG [lo:hi] OF] entity FOR attr"""

    def __init__(self, name, entity, attr, akind=None, lo=None, hi=None):
        self.name, self.entity, self.attr, self.akind, self.lo, self.hi = name, entity, attr, akind, lo, hi


class Entity(object):
    def __init__(self, name, supers=None, abstract=False, sexpr=None, attrs=None, derived=None, inverse=None, unique=None, where=None):
        self.name = name
        self.supers = supers or []
        self.abstract = abstract
        self.sexpr = sexpr          # ('leaf',n) | ('oneof',[..]) | ('and',a,b) | ('andor',a,b) | None
        self.attrs = attrs or []
        self.derived = derived or []
        self.inverse = inverse or []
        self.unique = unique or []  # list of (label|None, [attr names])
        self.where = where or []    # list of text 'label : expr' or 'expr'

    def text(self):
        h = 'ENTITY ' + self.name
        if self.abstract or self.sexpr:
            h += '\n  ' + ('ABSTRACT ' if self.abstract else '') + 'SUPERTYPE' + (' OF (' + sexpr_text(self.sexpr) + ')' if self.sexpr else '')
        if self.supers:
            h += '\n  SUBTYPE OF (' + ', '.join(self.supers) + ')'
        o = [h + ';']
        groups = []
        for a in self.attrs:
            decl = '%s%s' % ('OPTIONAL ' if a.optional else '', a.type.text())
            if getattr(self, 'merge_decls', False) and groups and groups[-1][1] == decl and '\\' not in a.name and '\\' not in groups[-1][0][-1]:
                groups[-1][0].append(a.name)       # `a, b : OPTIONAL T;` declares several attributes in one clause
            else:
                groups.append(([a.name], decl))
        for names, decl in groups:
            o.append('  %s : %s;' % (', '.join(names), decl))
        if self.derived:
            o.append('DERIVE')
            for d in self.derived:
                nm = ('SELF\\%s.%s' % d.redeclares) if d.redeclares else d.name
                o.append('  %s : %s := %s;' % (nm, d.type.text(), d.expr))
        if self.inverse:
            o.append('INVERSE')
            for i in self.inverse:
                if i.akind:
                    t = '%s [%s:%s] OF %s' % (i.akind, i.lo if i.lo is not None else 0, '?' if i.hi is None else i.hi, i.entity)
                else:
                    t = i.entity
                o.append('  %s : %s FOR %s;' % (i.name, t, i.attr))
        if self.unique:
            o.append('UNIQUE')
            for lab, names in self.unique:
                o.append('  %s%s;' % ((lab + ' : ') if lab else '', ', '.join(names)))
        if self.where:
            o.append('WHERE')
            for w in self.where:
                o.append('  %s;' % w)
        o.append('END_ENTITY;')
        return '\n'.join(o)


def sexpr_text(e, top=True):
    if e[0] == 'leaf':
        return e[1]
    if e[0] == 'oneof':
        return 'ONEOF (' + ', '.join(sexpr_text(x, False) for x in e[1]) + ')'
    s = sexpr_text(e[1], False) + (' AND ' if e[0] == 'and' else ' ANDOR ') + sexpr_text(e[2], False)
    return s if top else '(' + s + ')'


def sexpr_leaves(e):
    if e is None:
        return []
    if e[0] == 'leaf':
        return [e[1]]
    if e[0] == 'oneof':
        return [l for x in e[1] for l in sexpr_leaves(x)]
    return sexpr_leaves(e[1]) + sexpr_leaves(e[2])


class Schema(object):
    def __init__(self, name, types=None, entities=None, extra_decls=None):
        self.name = name
        self.types = types or []
        self.entities = entities or []
        self.extra = extra_decls or []   # raw text declarations (constants, functions, rules) appended as-is
        self.tags = set()

    def type(self, n):
        for t in self.types:
            if t.name == n:
                return t
        raise KeyError(n)

    def entity(self, n):
        for e in self.entities:
            if e.name == n:
                return e
        raise KeyError(n)

    def has_entity(self, n):
        return any(e.name == n for e in self.entities)

    def text(self):
        o = ['SCHEMA %s;' % self.name, '']
        for t in self.types:
            o.append(t.text())
        o.append('')
        for e in self.entities:
            o.append(e.text())
            o.append('')
        for x in self.extra:
            o.append(x)
            o.append('')
        o.append('END_SCHEMA;')
        return '\n'.join(o) + '\n'

    # ---- inheritance helpers
    def subs(self, n):
        return [e.name for e in self.entities if n in e.supers]

    def ancestors(self, n):
        """All supertypes, depth-first in SUBTYPE OF order, each once (Part 21 internal-mapping order)."""
        out = []

        def rec(x):
            for s in self.entity(x).supers:
                rec(s)
                if s not in out:
                    out.append(s)
        rec(n)
        return out

    def descendants(self, n):
        out = []
        for s in self.subs(n):
            if s not in out:
                out.append(s)
            for d in self.descendants(s):
                if d not in out:
                    out.append(d)
        return out

    def is_a(self, sub, sup):
        return sub == sup or sup in self.ancestors(sub)

    def redeclared_derived(self, n):
        """Set of (owner, attr) that entity n or its ancestors re-declare as DERIVEd."""
        r = set()
        for x in self.ancestors(n) + [n]:
            for d in self.entity(x).derived:
                if d.redeclares:
                    r.add(d.redeclares)
        return r

    def all_attrs(self, n):
        """Part 21 internal mapping: [(owner, Attr, derived?)] inherited first (each once), then own."""
        red = self.redeclared_derived(n)
        out = []
        for x in self.ancestors(n) + [n]:
            for a in self.entity(x).attrs:
                out.append((x, a, (x, a.name) in red))
        return out

    def own_attrs(self, n, within):
        """External mapping part: own explicit attributes; derived? judged within the set of parts."""
        red = set()
        for x in within:
            for d in self.entity(x).derived:
                if d.redeclares:
                    red.add(d.redeclares)
        return [(n, a, (n, a.name) in red) for a in self.entity(n).attrs]

    # ---- type resolution
    def underlying(self, t):
        """Follow defined simple types down to a SIMPLE/aggr/entity T, or to the enum/select TypeDef."""
        while t.kind == 'named':
            td = self.type(t.name)
            if td.kind != 'simple':
                return td
            t = td.base
        return t

    def select_leaves(self, td, seen=None):
        """For a select TypeDef: list of (keyword or None, T) alternatives reachable (nested selects flattened).
        keyword is the defined-type name to write (None for entity members)."""
        seen = seen or set()
        out = []
        for m in td.members:
            if self.has_entity(m):
                out.append((None, ENT(m)))
                continue
            mt = self.type(m)
            if mt.kind == 'select':
                if m not in seen:
                    out.extend(self.select_leaves(mt, seen | {m}))
            else:
                out.append((m, NAMED(m)))
        return out
