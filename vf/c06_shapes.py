"""C06 pathological lexical / structural shapes (deterministic, seed independent) and the fixed probes of open findings.

A shape is (name, construct, text, tools, args).  `name x construct` is the first key component of anything it provokes.
"""
from .c06_run import TOOLS

ALL = TOOLS


def wrap(body, name='p'):
    return 'SCHEMA %s;\n%s\nEND_SCHEMA;\n' % (name, body)


def ent(extra=''):
    return 'ENTITY e;\n  a : INTEGER;\n%sEND_ENTITY;\n' % extra


def fn(body, locs=''):
    return ('FUNCTION f(n : INTEGER) : INTEGER;\nLOCAL\n  i : INTEGER := 0;\n  li : LIST OF INTEGER := [];\n%sEND_LOCAL;\n%s\n  RETURN (i);\n'
            'END_FUNCTION;\n' % (locs, body))


def nested_functions(depth):
    o = []
    for d in range(depth):
        o.append('%sFUNCTION f%d(n : INTEGER) : INTEGER;' % (' ' * d, d))
    for d in range(depth - 1, -1, -1):
        if d < depth - 1:
            o.append('%s  RETURN (f%d(n));' % (' ' * d, d + 1))
        else:
            o.append('%s  RETURN (n);' % (' ' * d))
        o.append('%sEND_FUNCTION;' % (' ' * d))
    return '\n'.join(o) + '\n'


def nested_procedures(depth):
    o = ['%sPROCEDURE p%d(n : INTEGER);' % (' ' * d, d) for d in range(depth)]
    o += ['%sEND_PROCEDURE;' % (' ' * d) for d in range(depth - 1, -1, -1)]
    return '\n'.join(o) + '\n'


def nested_query(depth):
    e = 'TRUE'
    for d in range(depth):
        e = 'SIZEOF(QUERY(q%d <* li | %s)) = 0' % (depth - d, e)
    return fn('  IF %s THEN i := 1; END_IF;' % e)


def nested_repeat(depth):
    o = ['%s  REPEAT k%d := 1 TO 2;' % (' ' * d, d) for d in range(depth)]
    o += ['%s  i := i + 1;' % (' ' * depth)]
    o += ['%s  END_REPEAT;' % (' ' * d) for d in range(depth - 1, -1, -1)]
    return fn('\n'.join(o))


def nested_alias(depth):
    o = ['%s  ALIAS a%d FOR %s;' % (' ' * d, d, 'li' if d == 0 else 'a%d' % (d - 1)) for d in range(depth)]
    o += ['%s  i := i + 1;' % (' ' * depth)]
    o += ['%s  END_ALIAS;' % (' ' * d) for d in range(depth - 1, -1, -1)]
    return fn('\n'.join(o))


def nested_if(depth):
    o = ['%s  IF i < %d THEN' % (' ' * d, d) for d in range(depth)]
    o += ['%s  i := i + 1;' % (' ' * depth)]
    o += ['%s  END_IF;' % (' ' * d) for d in range(depth - 1, -1, -1)]
    return fn('\n'.join(o))


def nested_parens(depth):
    return fn('  i := %s1%s;' % ('(' * depth, ')' * depth))


def nested_brackets(depth):
    return wrap('TYPE t = %sINTEGER;\nEND_TYPE;\n' % ('LIST OF ' * depth)) if depth else ''


def nested_aggr_init(depth):
    return fn('  i := SIZEOF(%s1%s);' % ('[' * depth, ']' * depth))


def nested_remark(depth):
    return '(* ' * depth + 'x' + ' *)' * depth


def n_errors(n):
    """n independent resolution errors (undefined attribute types), one per line."""
    return wrap('ENTITY e;\n' + ''.join('  a%d : undefined_type_%d;\n' % (i, i) for i in range(n)) + 'END_ENTITY;\n')


def n_syntax_errors(n):
    return wrap(''.join('ENTITY e%d; a : ; END_ENTITY;\n' % i for i in range(n)))


def size_label(family, n, limits):
    """Key label of a sized shape: sizes are bucketed at the documented limits of the family (limits ascending), so that all
    sizes on the same side of a fixed table's limit share one key and a probe just below the limit keeps its own."""
    lo = None
    for l in limits:
        if n < l:
            return '%s of %s chars' % (family, ('%d to %d' % (lo, l - 1)) if lo is not None else 'up to %d' % (l - 1))
        lo = l
    return '%s of %d chars or more' % (family, lo)


def shapes(tier, warnings=('all', 'none')):
    """-> list of (label, construct, text|bytes|None, tools, args, name).  `label x construct` starts the key; name is the
    exact shape (with its size) for the evidence and the `what`."""
    S = []

    def add(name, construct, text, tools=ALL, args=(), label=None):
        S.append((label or name, construct, text, tuple(tools), tuple(args), name))
    X = lambda n: 'x' * n
    # remarks: last_comment_[256] holds remark + newline + NUL -> limit 255
    for n in (100, 254, 255, 256, 257, 10 ** 4, 10 ** 5):
        lt = size_label('tail remark', n, (255,))
        le = size_label('embedded remark', n, (255,))
        add('tail remark of %d chars' % n, 'after semicolon', wrap(ent()) .replace('a : INTEGER;', 'a : INTEGER; --' + X(n - 2)), label=lt)
        add('tail remark of %d chars' % n, 'own line', wrap('--' + X(n - 2) + '\n' + ent()), label=lt)
        add('embedded remark of %d chars' % n, 'between declarations', wrap('(*' + X(n - 4) + '*)\n' + ent()), label=le)
        add('embedded remark of %d chars' % n, 'after semicolon', wrap(ent()).replace('a : INTEGER;', 'a : INTEGER; (*' + X(n - 4) + '*)'), label=le)
    add('tail remark of 300 chars', 'end of file without newline', wrap(ent()).rstrip('\n') + ' --' + X(298), label='token cut by end of file')
    add('tail remark of 30 chars', 'end of file without newline', wrap(ent()).rstrip('\n') + ' --' + X(28), label='token cut by end of file')
    add('tail remark on own line', 'end of file without newline', wrap(ent()) + '-- the end', label='token cut by end of file')
    add('embedded remark unterminated', 'end of file', wrap(ent()) + '(* never closed ' + X(1000), label='token cut by end of file')
    add('string literal unterminated', 'end of file', wrap("CONSTANT\n  c : STRING := 'abc", 'q'), label='token cut by end of file')
    add('encoded string literal unterminated', 'end of file', wrap('CONSTANT\n  c : STRING := "0000', 'q'), label='token cut by end of file')
    add('embedded remark of 10000 lines', 'between declarations', wrap('(*' + 'line\n' * 10 ** 4 + '*)\n' + ent()))
    # literals: exppp formats every fragment into char buf[10000]
    for n in (9000, 10 ** 4, 10 ** 5):
        lim = (9990,)
        add('string literal of %d chars' % n, 'constant', wrap("CONSTANT\n  c : STRING := '%s';\nEND_CONSTANT;\n" % X(n) + ent()),
            label=size_label('string literal', n, lim))
        add('string literal of %d chars' % n, 'where rule', wrap(ent("WHERE\n  wr1 : SELF.a > LENGTH('%s');\n" % X(n))),
            label=size_label('string literal', n, lim))
        add('binary literal of %d digits' % n, 'constant', wrap('CONSTANT\n  c : BINARY := %%%s;\nEND_CONSTANT;\n' % ('10' * (n // 2)) + ent()),
            label=size_label('binary literal', n, lim))
        add('encoded string literal of %d digits' % n, 'constant', wrap('CONSTANT\n  c : STRING := "%s";\nEND_CONSTANT;\n' % ('00000041' * (n // 8)) + ent()),
            label=size_label('encoded string literal', n, lim))
        add('integer literal of %d digits' % n, 'constant', wrap('CONSTANT\n  c : INTEGER := %s;\nEND_CONSTANT;\n' % ('7' * n) + ent()),
            label=size_label('integer literal', n, lim))
        add('real literal of %d digits' % n, 'constant', wrap('CONSTANT\n  c : REAL := 1.%sE+%s;\nEND_CONSTANT;\n' % ('3' * n, '9' * 30) + ent()),
            label=size_label('real literal', n, lim))
    add('string literal unterminated', 'constant', wrap("CONSTANT\n  c : STRING := 'abc;\nEND_CONSTANT;\n" + ent()))
    add('string literal of 10000 quote pairs', 'constant', wrap("CONSTANT\n  c : STRING := '%s';\nEND_CONSTANT;\n" % ("''" * 10 ** 4) + ent()))
    # identifiers: MAX_LEN 240 name buffers (prefix included) and 255-char file names in the generators, BUFSIZ (8192) buffers elsewhere
    for n in (200, 239, 240, 1000, 8191, 8192, 10 ** 5):
        li = size_label('identifier', n, (230, 8191))
        add('identifier of %d chars' % n, 'entity name', wrap('ENTITY %s;\n  a : INTEGER;\nEND_ENTITY;\n' % X(n)), label=li)
        add('identifier of %d chars' % n, 'attribute name', wrap('ENTITY e;\n  %s : INTEGER;\nEND_ENTITY;\n' % X(n)), label=li)
        add('identifier of %d chars' % n, 'schema name', 'SCHEMA %s;\n%sEND_SCHEMA;\n' % (X(n), ent()), label=li)
        add('identifier of %d chars' % n, 'undefined type reference', wrap('ENTITY e;\n  a : %s;\nEND_ENTITY;\n' % X(n)), label=li)
        add('identifier of %d chars' % n, 'defined type name', wrap('TYPE %s = INTEGER;\nEND_TYPE;\n' % X(n) + ent()), label=li)
        add('identifier of %d chars' % n, 'select type name', wrap(ent() + 'TYPE %s = SELECT (e);\nEND_TYPE;\n' % X(n)), label=li)
        add('identifier of %d chars' % n, 'enumeration item', wrap('TYPE t = ENUMERATION OF (%s, b);\nEND_TYPE;\n' % X(n) + ent()), label=li)
        add('identifier of %d chars' % n, 'function name', wrap('FUNCTION %s(n : INTEGER) : INTEGER;\n  RETURN (n);\nEND_FUNCTION;\n' % X(n) + ent()), label=li)
        add('identifier of %d chars' % n, 'where label', wrap(ent('WHERE\n  %s : SELF.a > 0;\n' % X(n))), label=li)
    # nesting: the parser's scopes[20]
    for d in (10, 17, 18, 19, 20, 21, 100):
        lab = lambda what: ('%d or more nested %s' % (18, what)) if d >= 18 else ('up to 17 nested %s' % what)
        add('%d nested FUNCTIONs' % d, 'function', wrap(nested_functions(d) + ent()), label=lab('FUNCTIONs'))
        add('%d nested PROCEDUREs' % d, 'procedure', wrap(nested_procedures(d) + ent()), label=lab('PROCEDUREs'))
        add('%d nested QUERYs' % d, 'function body', wrap(nested_query(d) + ent()), label=lab('QUERYs'))
        add('%d nested REPEATs' % d, 'function body', wrap(nested_repeat(d) + ent()), label=lab('REPEATs'))
        add('%d nested ALIASes' % d, 'function body', wrap(nested_alias(d) + ent()), label=lab('ALIASes'))
        add('%d nested IFs' % d, 'function body', wrap(nested_if(d) + ent()), label=lab('IFs'))
        add('%d nested parentheses' % d, 'expression', wrap(nested_parens(d) + ent()), label=lab('parentheses'))
        add('%d nested aggregate initializers' % d, 'expression', wrap(nested_aggr_init(d) + ent()), label=lab('aggregate initializers'))
        add('%d nested aggregate types' % d, 'type', nested_brackets(d), label=lab('aggregate types'))
        add('%d nested remarks' % d, 'between declarations', wrap(nested_remark(d) + '\n' + ent()), label=lab('remarks'))
    for d in (1000, 5000):
        add('%d nested parentheses' % d, 'expression', wrap(nested_parens(d) + ent()), label='1000 or more nested parentheses')
        add('%d nested remarks' % d, 'between declarations', wrap(nested_remark(d) + '\n' + ent()), label='1000 or more nested remarks')
        add('%d unclosed parentheses' % d, 'expression', wrap(fn('  i := %s1;' % ('(' * d)) + ent()), label='1000 or more unclosed parentheses')
    # many diagnostics, direct and buffered (-B: heap[ERROR_MAX_ERRORS=100] + 4000-byte text buffer)
    for n in (99, 100, 101, 1000):
        add('%d errors in one file' % n, 'undefined attribute types', n_errors(n))
        add('%d errors in one file' % n, 'syntax errors', n_syntax_errors(n))
        add('%d errors in one file, buffered (-B)' % n, 'undefined attribute types', n_errors(n), ALL, ('-B',))
        add('%d errors in one file, buffered (-B)' % n, 'syntax errors', n_syntax_errors(n), ALL, ('-B',))
    for n in (100, 3000, 3990, 4100, 8191, 10 ** 5):
        add('buffered (-B) diagnostic with an argument of %d chars' % n, 'undefined type reference',
            wrap('ENTITY e;\n  a : %s;\nEND_ENTITY;\n' % X(n)), ALL, ('-B',),
            label=size_label('buffered (-B) diagnostic with an argument', n, (3800,)))
    add('30 errors with 8000-char arguments, buffered (-B)', 'undefined attribute types',
        wrap('ENTITY e;\n' + ''.join('  a%d : %s%d;\n' % (i, 'u' * 8000, i) for i in range(30)) + 'END_ENTITY;\n'), ALL, ('-B',))
    add('60 errors with 60-char arguments, buffered (-B)', 'undefined attribute types',
        wrap('ENTITY e;\n' + ''.join('  a%d : %s%d;\n' % (i, 'u' * 60, i) for i in range(60)) + 'END_ENTITY;\n'), ALL, ('-B',))
    add('30 errors with 8000-char arguments', 'undefined attribute types',
        wrap('ENTITY e;\n' + ''.join('  a%d : %s%d;\n' % (i, 'u' * 8000, i) for i in range(30)) + 'END_ENTITY;\n'))
    # odd whole-file shapes
    add('empty file', 'whole file', '')
    add('single newline', 'whole file', '\n')
    add('only a remark', 'whole file', '(* nothing *)')
    add('only semicolons', 'whole file', ';' * 5000)
    add('no final newline', 'whole file', wrap(ent()).rstrip('\n'))
    add('CRLF line ends', 'whole file', wrap(ent()).replace('\n', '\r\n'))
    add('NUL bytes', 'between tokens', wrap(ent()).replace(' : ', ' \0:\0 ').encode())
    add('NUL bytes', 'inside string literal', wrap("CONSTANT\n  c : STRING := 'a\0b';\nEND_CONSTANT;\n" + ent()).encode())
    add('NUL bytes', 'inside remark', wrap('(* a\0b *) -- c\0d\n' + ent()).encode())
    add('bytes 0x80-0xFF', 'inside identifier', wrap(ent()).encode().replace(b'a : INTEGER', b'a\xe9\xff\x80 : INTEGER'))
    add('bytes 0x80-0xFF', 'inside string literal', wrap("CONSTANT\n  c : STRING := 'a").encode() + bytes(range(0x80, 0x100)) + ("';\nEND_CONSTANT;\n" + ent() + 'END_SCHEMA;\n').encode())
    add('bytes 0x80-0xFF', 'inside remark', b'(* ' + bytes(range(0x80, 0x100)) + b' *) -- ' + bytes(range(0x80, 0x100)) + b'\n' + wrap(ent()).encode())
    add('bytes 0x80-0xFF', 'whole file', bytes(range(0x80, 0x100)) * 20)
    add('all 256 byte values', 'whole file', bytes(range(256)) * 8)
    add('UTF-8 BOM', 'start of file', b'\xef\xbb\xbf' + wrap(ent()).encode())
    add('1000 schemas', 'whole file', ''.join('SCHEMA s%d;\nENTITY e%d;\n  a : INTEGER;\nEND_ENTITY;\nEND_SCHEMA;\n' % (i, i) for i in range(1000)))
    add('2000 attributes', 'entity', wrap('ENTITY e;\n' + ''.join('  a%d : INTEGER;\n' % i for i in range(2000)) + 'END_ENTITY;\n'))
    add('2000 enumeration items', 'type', wrap('TYPE t = ENUMERATION OF (%s);\nEND_TYPE;\n' % ', '.join('i%d' % i for i in range(2000)) + ent()))
    add('500 select members', 'type', wrap(''.join('ENTITY m%d;\nEND_ENTITY;\n' % i for i in range(500)) + 'TYPE t = SELECT (%s);\nEND_TYPE;\n' % ', '.join('m%d' % i for i in range(500))))
    add('300-deep subtype chain', 'entity', wrap('ENTITY c0;\n  a : INTEGER;\nEND_ENTITY;\n' + ''.join('ENTITY c%d SUBTYPE OF (c%d);\nEND_ENTITY;\n' % (i, i - 1) for i in range(1, 300))))
    add('expression of 5000 operands', 'expression', wrap(fn('  i := %s;' % ' + '.join(['1'] * 5000)) + ent()))
    add('line of 100000 chars', 'white space', wrap(ent()).replace(' : ', ' ' * 10 ** 5 + ':'))
    # exppp line lengths
    rich = wrap("CONSTANT\n  c : STRING := '%s';\nEND_CONSTANT;\n" % X(300) + ent('WHERE\n  wr1 : ((SELF.a + 1) * 2 > 3) AND (SELF.a < 1000000) OR (SELF.a IN [1, 2, 3, 4, 5, 6, 7, 8, 9, 10]);\n')
                + nested_if(6) + 'TYPE t = ENUMERATION OF (%s);\nEND_TYPE;\n' % ', '.join('item_%d' % i for i in range(40)))
    for ll in ('0', '1', '10', '20', '40', '79', '80', '255', '9999', '10000', '99999', '-5', 'abc', '2147483648'):
        add('exppp -l %s' % ll, 'schema with long string, where rule, nested IF, 40 enumeration items', rich, ('exppp',), ('-l', ll))
    add('exppp -o into missing directory', 'option', wrap(ent()), ('exppp',), ('-o', 'no/such/dir/out.exp'))
    add('exppp -t -c', 'option', rich, ('exppp',), ('-t', '-c'))
    add('exppp -o --', 'option', rich, ('exppp',), ('-o', '--'))
    # warning switches: every name the tools advertise in their usage text + an unknown one + the empty string
    for w in list(warnings) + ['no_such_warning', '']:
        add('warning switch', '-w <name>', wrap(ent()), ALL, ('-w', w))
        add('warning switch', '-i <name>', wrap(ent()), ALL, ('-i', w))
    add('-v', 'option', wrap(ent()), ALL, ('-v',))
    add('-d 9', 'option', wrap(ent()), ALL, ('-d', '9'))
    add('-p with all object letters', 'option', wrap(ent() + nested_if(2)), ALL, ('-p', 'paertfsvx#E'))
    add('-r', 'option', wrap(ent()), ALL, ('-r',))
    add('-z', 'option', wrap(ent()), ALL, ('-z',))
    add('-B', 'option', n_errors(150), ALL, ('-B',))
    add('-b', 'option', n_errors(150), ALL, ('-b',))
    add('unknown option -Z', 'option', wrap(ent()), ALL, ('-Z',))
    add('missing input file', 'option', None, ALL, ())
    # constructs behind open findings of the generators / resolver (the randomized workload masks them, see c06.py MASKS)
    add('REPEAT without control', 'function body', wrap(fn('  REPEAT;\n    i := i + 1;\n    IF i > 3 THEN ESCAPE; END_IF;\n  END_REPEAT;') + ent()))
    two = ('SCHEMA a;\nFUNCTION fa(n : INTEGER) : INTEGER;\n  RETURN (n);\nEND_FUNCTION;\nENTITY ea;\n  x : INTEGER;\nEND_ENTITY;\nEND_SCHEMA;\n'
           'SCHEMA b;\n%s\nENTITY eb;\n  y : INTEGER;\nEND_ENTITY;\nEND_SCHEMA;\n')
    add('interface item renamed with AS', 'USE FROM', two % 'USE FROM a (ea AS ex);')
    add('interface item renamed with AS', 'REFERENCE FROM', two % 'REFERENCE FROM a (ea AS ex, fa AS fx);')
    add('interface item not renamed', 'USE FROM', two % 'USE FROM a (ea);')
    add('interface item not renamed', 'REFERENCE FROM', two % 'REFERENCE FROM a (ea, fa);')
    add('two schemas using each other', 'USE FROM + defined type renaming the other schema\'s type',
        'SCHEMA a;\nUSE FROM b (tb2);\nTYPE ta = REAL;\nEND_TYPE;\nTYPE ta2 = tb2;\nEND_TYPE;\nENTITY ea;\n  x : ta;\nEND_ENTITY;\nEND_SCHEMA;\n'
        'SCHEMA b;\nUSE FROM a (ta);\nTYPE tb = ta;\nEND_TYPE;\nTYPE tb2 = INTEGER;\nEND_TYPE;\nENTITY eb;\n  y : tb;\nEND_ENTITY;\nEND_SCHEMA;\n')
    add('UNIQUE rule on SELF\\super.attr followed by a plain attribute rule', 'entity redeclaring an inherited attribute',
        wrap('ENTITY sup;\n  a : INTEGER;\nEND_ENTITY;\nENTITY sub\n  SUBTYPE OF (sup);\n  SELF\\sup.a : INTEGER;\n  b : INTEGER;\nUNIQUE\n'
             '  ur1 : SELF\\sup.a;\n  ur2 : b;\nEND_ENTITY;\n'))
    add('UNIQUE rule on a plain attribute followed by one on SELF\\super.attr', 'entity redeclaring an inherited attribute',
        wrap('ENTITY sup;\n  a : INTEGER;\nEND_ENTITY;\nENTITY sub\n  SUBTYPE OF (sup);\n  SELF\\sup.a : INTEGER;\n  b : INTEGER;\nUNIQUE\n'
             '  ur1 : b;\n  ur2 : SELF\\sup.a;\nEND_ENTITY;\n'))
    add('SELF in a SUPERTYPE OF expression', 'entity', wrap('ENTITY e0\n  SUPERTYPE OF (e3 ANDOR SELF);\nEND_ENTITY;\nENTITY e3\n  SUBTYPE OF (e0);\nEND_ENTITY;\n'))
    add('literal in a SUPERTYPE OF expression', 'entity', wrap('ENTITY e0\n  SUPERTYPE OF (ONEOF (e3, 1));\nEND_ENTITY;\nENTITY e3\n  SUBTYPE OF (e0);\nEND_ENTITY;\n'))
    add('NVL with one argument', 'function body', wrap('FUNCTION f(n : INTEGER) : INTEGER;\n  RETURN (NVL(n));\nEND_FUNCTION;\n' + ent()))
    add('NVL without arguments', 'function body', wrap('FUNCTION f(n : INTEGER) : INTEGER;\n  RETURN (NVL());\nEND_FUNCTION;\n' + ent()))
    add('NVL with three arguments', 'function body', wrap('FUNCTION f(n : INTEGER) : INTEGER;\n  RETURN (NVL(n, 1, 2));\nEND_FUNCTION;\n' + ent()))
    for n in (1, 5, 6, 20):
        add('%d INCLUDE directives' % n, 'naming the input file itself', wrap("INCLUDE '@SELF@';\n" * n + ent()),
            label='6 or more INCLUDE directives' if n >= 6 else 'up to 5 INCLUDE directives')
    add('INCLUDE directive', 'naming a missing file', wrap("INCLUDE 'no_such_file.exp';\n" + ent()))
    sup = 'ENTITY sup;\n  a : INTEGER;\nEND_ENTITY;\nENTITY sub\n  SUBTYPE OF (sup);\nWHERE\n  wr1 : %s;\nEND_ENTITY;\n'
    add('group qualifier on a non-entity expression', 'aggregate initializer', wrap(sup % 'SIZEOF([1, 2]\\sup) = 0'))
    add('group qualifier on a non-entity expression', 'built-in constant', wrap(sup % '(CONST_E\\sup) = 0'))
    add('group qualifier on a non-entity expression', 'integer attribute', wrap(sup % '(SELF.a\\sup) = 0'))
    add('group qualifier on SELF', 'where rule', wrap(sup % 'SELF\\sup.a > 0'))
    add('subtype cycle', 'attribute looked up through the cycle',
        wrap('ENTITY a\n  SUBTYPE OF (b);\n  x : INTEGER;\nEND_ENTITY;\nENTITY b\n  SUBTYPE OF (a);\n  y : INTEGER;\nEND_ENTITY;\n'
             'ENTITY c\n  SUBTYPE OF (b);\n  z : INTEGER;\nDERIVE\n  SELF\\a.x : INTEGER := 1;\nEND_ENTITY;\n'))
    add('subtype cycle', 'two entities', wrap('ENTITY a SUBTYPE OF (b);\n  x : INTEGER;\nEND_ENTITY;\nENTITY b SUBTYPE OF (a);\n  y : INTEGER;\nWHERE\n  wr1 : x > 0;\nEND_ENTITY;\n'))
    add('subtype cycle', 'entity under itself', wrap('ENTITY a SUBTYPE OF (a);\n  x : INTEGER;\nEND_ENTITY;\n'))
    add('select cycle', 'two select types', wrap('TYPE s1 = SELECT (s2);\nEND_TYPE;\nTYPE s2 = SELECT (s1);\nEND_TYPE;\n' + ent()))
    # cycles reached through a tail (the entry point is not on the cycle), longer cycles, cycles with extra members
    add('select cycle', 'select type selecting itself', wrap('TYPE s1 = SELECT (s1);\nEND_TYPE;\n' + ent()))
    add('select cycle', 'three select types', wrap('TYPE s1 = SELECT (s2);\nEND_TYPE;\nTYPE s2 = SELECT (s3);\nEND_TYPE;\nTYPE s3 = SELECT (s1);\nEND_TYPE;\n' + ent()))
    for order in ((1, 2, 3), (3, 2, 1), (2, 3, 1)):
        decl = {1: 'TYPE t1 = SELECT (t2, e);\nEND_TYPE;\n', 2: 'TYPE t2 = SELECT (t3, e);\nEND_TYPE;\n', 3: 'TYPE t3 = SELECT (e, t2);\nEND_TYPE;\n'}
        add('select cycle', 'reached from a select type that is not on the cycle', wrap(ent() + ''.join(decl[i] for i in order)))
    add('select cycle', 'two cycles sharing a select type',
        wrap(ent() + 'TYPE t1 = SELECT (t2, t3);\nEND_TYPE;\nTYPE t2 = SELECT (t1, e);\nEND_TYPE;\nTYPE t3 = SELECT (t1, e);\nEND_TYPE;\nTYPE t0 = SELECT (t1, t2, t3);\nEND_TYPE;\n'))
    add('select cycle', 'reached from an attribute and an aggregate', wrap('TYPE t2 = SELECT (t3, e);\nEND_TYPE;\nTYPE t3 = SELECT (t2);\nEND_TYPE;\n'
                                                                         'ENTITY e;\n  a : t2;\n  b : LIST OF t3;\nEND_ENTITY;\n'))
    add('subtype cycle', 'reached from an entity that is not on the cycle',
        wrap('ENTITY a SUBTYPE OF (b);\nEND_ENTITY;\nENTITY b SUBTYPE OF (a);\nEND_ENTITY;\nENTITY c SUBTYPE OF (a);\n  z : INTEGER;\nEND_ENTITY;\nENTITY d SUBTYPE OF (c);\nWHERE\n  wr1 : z > 0;\nEND_ENTITY;\n'))
    add('subtype cycle', 'three entities without attributes', wrap('ENTITY a SUBTYPE OF (c);\nEND_ENTITY;\nENTITY b SUBTYPE OF (a);\nEND_ENTITY;\nENTITY c SUBTYPE OF (b);\nEND_ENTITY;\n'))
    add('subtype cycle', 'cycle with a second, acyclic supertype', wrap('ENTITY r;\n  x : INTEGER;\nEND_ENTITY;\nENTITY a SUBTYPE OF (r, b);\nEND_ENTITY;\nENTITY b SUBTYPE OF (a);\nEND_ENTITY;\n'))
    add('subtype cycle', 'cycle declared through SUPERTYPE OF', wrap('ENTITY a SUPERTYPE OF (ONEOF (b)) SUBTYPE OF (b);\nEND_ENTITY;\nENTITY b SUPERTYPE OF (a) SUBTYPE OF (a);\nEND_ENTITY;\n'))
    add('type cycle', 'reached from a defined type that is not on the cycle', wrap('TYPE t0 = t1;\nEND_TYPE;\nTYPE t1 = t2;\nEND_TYPE;\nTYPE t2 = t1;\nEND_TYPE;\n' + ent()))
    add('type cycle', 'through an aggregate and a select', wrap('TYPE t1 = LIST OF t2;\nEND_TYPE;\nTYPE t2 = SELECT (t1, e);\nEND_TYPE;\n' + ent()))
    add('aggregate type containing itself', 'one defined type', wrap('TYPE t = SET [1:?] OF t;\nEND_TYPE;\n' + ent()))
    add('aggregate type containing itself', 'two defined types', wrap('TYPE t1 = LIST OF t2;\nEND_TYPE;\nTYPE t2 = SET OF t1;\nEND_TYPE;\n' + ent()))
    add('aggregate type containing itself', 'reached from a defined type that is not on the cycle',
        wrap('TYPE t0 = BAG OF t1;\nEND_TYPE;\nTYPE t1 = LIST OF t2;\nEND_TYPE;\nTYPE t2 = SET OF t1;\nEND_TYPE;\n' + ent()))
    add('aggregate type containing itself', 'nested in-line aggregates', wrap('TYPE t = LIST OF SET OF ARRAY [1:2] OF t;\nEND_TYPE;\n' + ent()))
    add('aggregate type containing itself', 'used as attribute type', wrap('TYPE t1 = LIST OF t2;\nEND_TYPE;\nTYPE t2 = SET OF t1;\nEND_TYPE;\nENTITY e;\n  a : t1;\n  b : ARRAY [1:2] OF t2;\nEND_ENTITY;\n'))
    add('type cycle', 'one defined type', wrap('TYPE t1 = t1;\nEND_TYPE;\n' + ent()))
    add('type cycle', 'two defined types', wrap('TYPE t1 = t2;\nEND_TYPE;\nTYPE t2 = t1;\nEND_TYPE;\n' + ent()))
    add('USE FROM itself', 'interface', wrap('USE FROM p;\n' + ent()))
    # interface clauses: schema names are turned into file names (256-byte buffers) when the schema is not in the file
    for n in (100, 245, 250, 251, 252, 255, 256, 300, 5000):
        lab = size_label('schema name', n, (246,))
        add('schema name of %d chars' % n, 'USE FROM unknown schema', wrap('USE FROM %s;\n' % X(n) + ent()), label=lab)
        add('schema name of %d chars' % n, 'REFERENCE FROM unknown schema', wrap('REFERENCE FROM %s (y);\n' % X(n) + ent()), label=lab)
    for k in (2, 3):
        names = ['s%d' % i for i in range(k)]
        for miss in ('USE', 'REFERENCE'):
            t = ''
            for i, nm in enumerate(names):
                t += 'SCHEMA %s;\nUSE FROM %s;\n' % (nm, names[(i + 1) % k])
                if i == k - 1:
                    t += '%s FROM %s (nonexistent);\n' % (miss, names[0])
                t += 'ENTITY e_%s;\n  a : INTEGER;\nEND_ENTITY;\nEND_SCHEMA;\n' % nm
            add('%d schemas using each other in a cycle' % k, '%s FROM of an item none of them declares' % miss, t)
        t = ''
        for i, nm in enumerate(names):
            t += 'SCHEMA %s;\nUSE FROM %s;\nENTITY e_%s;\n  a : INTEGER;\n  b : OPTIONAL e_%s;\nEND_ENTITY;\nEND_SCHEMA;\n' % (nm, names[(i + 1) % k], nm, names[(i + 1) % k])
        add('%d schemas using each other in a cycle' % k, 'every item exists', t)
    add('function with parameters referenced without arguments', 'RETURN expression',
        wrap('FUNCTION g(n : INTEGER) : INTEGER;\n  RETURN (n);\nEND_FUNCTION;\nFUNCTION f(n : INTEGER) : INTEGER;\n  RETURN (g);\nEND_FUNCTION;\n' + ent()))
    add('function with parameters referenced without arguments', 'where rule', wrap('FUNCTION g(n : INTEGER) : INTEGER;\n  RETURN (n);\nEND_FUNCTION;\n' + ent('WHERE\n  wr1 : g > 0;\n')))
    add('function without parameters referenced without arguments', 'RETURN expression',
        wrap('FUNCTION g : INTEGER;\n  RETURN (1);\nEND_FUNCTION;\nFUNCTION f(n : INTEGER) : INTEGER;\n  RETURN (g);\nEND_FUNCTION;\n' + ent()))
    add('procedure referenced as a value', 'RETURN expression',
        wrap('PROCEDURE pr(VAR v : INTEGER);\n  v := 1;\nEND_PROCEDURE;\nFUNCTION f(n : INTEGER) : INTEGER;\n  RETURN (pr);\nEND_FUNCTION;\n' + ent()))
    # DERIVE initializers are re-quoted by exp2cxx (every backslash and newline doubles)
    for n in (10, 5000, 9000, 10 ** 5):
        add('string literal of %d backslashes' % n, 'derived attribute initializer',
            wrap("ENTITY e;\n  a : STRING;\nDERIVE\n  d : STRING := '%s';\nEND_ENTITY;\n" % ('\\' * n)), label='string literal of backslashes')
        add('expression of %d lines' % n, 'derived attribute initializer',
            wrap("ENTITY e;\n  a : INTEGER;\nDERIVE\n  d : INTEGER := %s;\nEND_ENTITY;\n" % '\n+ '.join(['a'] * min(n, 20000))), label='expression of many lines')
    # inheritance lattices: each level is a diamond over the previous one (the complex-entity expansion walks every path)
    for d in (4, 10, 18, 26, 40):
        t = 'ENTITY t0;\n  a : INTEGER;\nEND_ENTITY;\n'
        for i in range(d):
            t += ('ENTITY l%d SUBTYPE OF (t%d);\nEND_ENTITY;\nENTITY r%d SUBTYPE OF (t%d);\nEND_ENTITY;\nENTITY t%d SUBTYPE OF (l%d, r%d);\nEND_ENTITY;\n'
                  % (i, i, i, i, i + 1, i, i))
        t += 'ENTITY z SUBTYPE OF (t%d);\nWHERE\n  wr1 : a > 0;\nEND_ENTITY;\n' % d
        add('chain of %d inheritance diamonds' % d, 'entity', wrap(t), label='chain of 18 or more inheritance diamonds' if d >= 18 else 'chain of up to 17 inheritance diamonds')
    # items of every kind declared in one schema, renamed there, and used from another schema of the same file
    # (exp2cxx processes a multi-schema file in passes and waits for foreign items to be marked processed)
    decls = {
        'enumeration': 'TYPE k1 = ENUMERATION OF (x, y);\nEND_TYPE;\n',
        'select': 'ENTITY m1;\n  q : INTEGER;\nEND_ENTITY;\nENTITY m2;\n  q : REAL;\nEND_ENTITY;\nTYPE k1 = SELECT (m1, m2);\nEND_TYPE;\n',
        'simple defined type': 'TYPE k1 = REAL;\nEND_TYPE;\n',
        'aggregate defined type': 'TYPE k1 = LIST [1:3] OF INTEGER;\nEND_TYPE;\n',
        'entity': 'ENTITY k1;\n  q : INTEGER;\nEND_ENTITY;\n',
    }
    for kind, decl in sorted(decls.items()):
        for depth in (0, 1, 2):
            if kind == 'entity' and depth:
                continue
            ren = ''.join('TYPE k%d = k%d;\nEND_TYPE;\n' % (i + 2, i + 1) for i in range(depth))
            item = 'k%d' % (depth + 1)
            sb = 'SCHEMA b;\n%s%sEND_SCHEMA;\n' % (decl, ren)
            for how in ('USE FROM b (%s);', 'REFERENCE FROM b (%s);', 'USE FROM b;', 'REFERENCE FROM b;'):
                if how.startswith('USE') and kind != 'entity' and '(' not in how and False:
                    continue
                clause = how % item if '%s' in how else how
                sa = 'SCHEMA a;\n%s\nENTITY ea;\n  col : %s;\n  cols : LIST [0:?] OF %s;\nEND_ENTITY;\nEND_SCHEMA;\n' % (clause, item, item)
                for order, text in (('user first', sa + sb), ('declarer first', sb + sa)):
                    add('%s renamed %d times in another schema of the file' % (kind, depth), '%s, %s' % (how.split(' b')[0] + (' (item)' if '%s' in how else ' (whole schema)'), order), text,
                        label='item of another schema of the same file used as attribute type')
    # attribute references through SELECT-typed values: attribute offered by one / two / no member, directly and through nested selects
    SEL = ('ENTITY ea;\n  x : INTEGER;\n  y : INTEGER;\nEND_ENTITY;\nENTITY eb;\n  x : INTEGER;\nEND_ENTITY;\nENTITY ec;\n  z : INTEGER;\nEND_ENTITY;\n'
           'TYPE inner = SELECT (%s);\nEND_TYPE;\nTYPE outer = SELECT (%s);\nEND_TYPE;\nTYPE col = ENUMERATION OF (red, green);\nEND_TYPE;\n'
           'ENTITY holder;\n  v : outer;\n  w : inner;\nWHERE\n  wr1 : %s;\nEND_ENTITY;\n')
    for inner_m, outer_m, lab in (('ea, eb', 'inner', 'nested select as only member, attribute offered by two entities'),
                                   ('ea, eb', 'inner, ec', 'nested select beside an entity, attribute offered by two entities'),
                                   ('ea, ec', 'inner', 'nested select as only member, attribute offered by one entity'),
                                   ('ea, eb', 'inner, col', 'nested select beside an enumeration'),
                                   ('ea', 'inner', 'chain of single-member selects')):
        for ref in ('v.x > 0', 'v.y > 0', 'v.z > 0', 'w.x > 0', 'v.nosuch > 0', '(v.x + w.x) > 0', "'P.EA' IN TYPEOF(v)"):
            add('attribute %s through a select' % ref.split(' ')[0].strip('('), lab, wrap(SEL % (inner_m, outer_m, ref)),
                label='attribute reference through a SELECT-typed value')
    # several files: a schema named in USE / REFERENCE FROM that is not in the input file is looked for in <schema>.exp
    def multi(main, mtext, **files):
        return '@@MAIN %s@@\n%s' % (main, mtext) + ''.join('@@FILE %s@@\n%s' % (n.replace('_exp', '.exp'), t) for n, t in sorted(files.items()))
    PART = 'SCHEMA parts;\nENTITY part;\n  name : STRING;\nEND_ENTITY;\nTYPE plabel = STRING;\nEND_TYPE;\nEND_SCHEMA;\n'
    DESIGN = 'SCHEMA design;\n%s\nENTITY assembly;\n  components : LIST [1:?] OF part;\nEND_ENTITY;\nEND_SCHEMA;\n'
    for clause in ('USE FROM parts;', 'USE FROM parts (part);', 'REFERENCE FROM parts;', 'REFERENCE FROM parts (part, plabel AS lbl);'):
        add('schema in another file', 'valid, %s' % clause.split(' parts')[0] + (' (items)' if '(' in clause else ' (whole schema)'), multi('design.exp', DESIGN % clause, parts_exp=PART))
    add('schema in another file', 'the other file declares the main file\'s schema again', multi('design.exp', DESIGN % 'USE FROM parts;', parts_exp=PART + 'SCHEMA design;\nENTITY leftover;\nEND_ENTITY;\nEND_SCHEMA;\n'))
    add('schema in another file', 'the other file declares one of its own names twice', multi('design.exp', DESIGN % 'USE FROM parts;', parts_exp=PART.replace('TYPE plabel', 'ENTITY part;\nEND_ENTITY;\nTYPE plabel')))
    add('schema in another file', 'the other file redeclares a name of the main file in its own schema', multi('design.exp', DESIGN % 'USE FROM parts;', parts_exp=PART.replace('TYPE plabel', 'ENTITY assembly;\nEND_ENTITY;\nTYPE plabel')))
    add('schema in another file', 'the other file does not contain the schema', multi('design.exp', DESIGN % 'USE FROM parts;', parts_exp='SCHEMA something_else;\nENTITY part;\nEND_ENTITY;\nEND_SCHEMA;\n'))
    add('schema in another file', 'the other file has a syntax error', multi('design.exp', DESIGN % 'USE FROM parts;', parts_exp=PART.replace('name : STRING;', 'name : ;')))
    add('schema in another file', 'the other file has an undefined type', multi('design.exp', DESIGN % 'USE FROM parts;', parts_exp=PART.replace('name : STRING;', 'name : nosuch;')))
    add('schema in another file', 'the other file is empty', multi('design.exp', DESIGN % 'USE FROM parts;', parts_exp=''))
    add('schema in another file', 'chain of three files', multi('design.exp', DESIGN % 'USE FROM parts;', parts_exp=PART.replace('SCHEMA parts;', 'SCHEMA parts;\nUSE FROM base (atom);'),
                                                                 base_exp='SCHEMA base;\nENTITY atom;\n  z : INTEGER;\nEND_ENTITY;\nEND_SCHEMA;\n'))
    add('schema in another file', 'two files using each other', multi('design.exp', DESIGN % 'USE FROM parts;', parts_exp=PART.replace('SCHEMA parts;', 'SCHEMA parts;\nREFERENCE FROM design (assembly);')))
    add('schema in another file', 'the file of a schema that uses itself', multi('foo.exp', 'SCHEMA foo;\nUSE FROM foo;\nENTITY e;\n  a : INTEGER;\nEND_ENTITY;\nEND_SCHEMA;\n'))
    add('schema in another file', 'the input file named after a schema it asks for but does not contain', multi('foo.exp', 'SCHEMA bar;\nUSE FROM foo;\nENTITY e;\n  a : INTEGER;\nEND_ENTITY;\nEND_SCHEMA;\n'))
    # further fixed-size buffers reported against the unchanged tree
    for n in (100, 9000, 20000):
        add('string literal of %d chars' % n, 'CASE label', wrap(fn("  CASE s OF\n    '%s' : i := 1;\n    OTHERWISE : i := 2;\n  END_CASE;" % X(n), locs="  s : STRING := 'x';\n") + ent()),
            label=size_label('string literal', n, (9990,)))
    for n in (5, 60, 300):
        add('aggregate type nested %d deep with long names' % n, 'attribute type',
            wrap('TYPE %s = INTEGER;\nEND_TYPE;\nENTITY e;\n  a : %s %s;\nEND_ENTITY;\n' % (X(200), ' '.join(['LIST [1:3] OF'] * n), X(200))),
            label='deeply nested aggregate attribute type' if n >= 60 else 'nested aggregate attribute type')
    add('exppp -o --', 'two schemas in one file', 'SCHEMA a;\nENTITY ea;\n  x : INTEGER;\nEND_ENTITY;\nEND_SCHEMA;\nSCHEMA b;\nENTITY eb;\n  y : INTEGER;\nEND_ENTITY;\nEND_SCHEMA;\n',
        ('exppp',), ('-o', '--'))
    add('USE FROM unknown schema', 'interface', wrap('USE FROM nowhere (x);\n' + ent()))
    return S
