"""C06 workload: richer *valid* EXPRESS schemas (algorithmic declarations), an EXPRESS tokenizer, token-level and
byte-level mutation operators.

Everything random derives from the rng handed in by the check (random.Random('c06/<seed>/...')).
"""
import re

KEYWORDS = ('ABS ABSTRACT ACOS AGGREGATE ALIAS AND ANDOR ARRAY AS ASIN ATAN BAG BASED_ON BEGIN BINARY BLENGTH BOOLEAN BY '
            'CASE CONST_E CONSTANT COS DERIVE DIV ELSE END END_ALIAS END_CASE END_CONSTANT END_ENTITY END_FUNCTION END_IF '
            'END_LOCAL END_PROCEDURE END_REPEAT END_RULE END_SCHEMA END_TYPE ENTITY ENUMERATION ESCAPE EXISTS EXP FALSE '
            'FIXED FOR FORMAT FROM FUNCTION GENERIC HIBOUND HIINDEX IF IN INSERT INTEGER INVERSE LENGTH LIKE LIST LOBOUND '
            'LOCAL LOG LOG10 LOG2 LOGICAL LOINDEX MOD NOT NUMBER NVL ODD OF ONEOF OPTIONAL OR OTHERWISE PI PROCEDURE QUERY '
            'REAL REFERENCE REMOVE REPEAT RETURN ROLESOF RULE SCHEMA SELECT SELF SET SIN SIZEOF SKIP SQRT STRING SUBTYPE '
            'SUPERTYPE TAN THEN TO TRUE TYPE TYPEOF UNIQUE UNKNOWN UNTIL USE USEDIN VALUE VALUE_IN VALUE_UNIQUE VAR WHERE '
            'WHILE XOR').split()
KWSET = set(KEYWORDS)

# ---------------------------------------------------------------------------------------------------------------
# tokenizer (for mutation and shrinking only - it never decides a verdict)

_TOK = re.compile(r'''
    (?P<ws>\s+)
  | (?P<tail>--[^\n]*)
  | (?P<rem>\(\*.*?\*\))
  | (?P<str>'(?:[^'\n]|'')*')
  | (?P<enc>"[^"\n]*")
  | (?P<bin>%[01]+)
  | (?P<real>\d+\.\d*(?:[eE][+-]?\d+)?)
  | (?P<int>\d+)
  | (?P<id>[A-Za-z_][A-Za-z0-9_]*)
  | (?P<op><\*|<=|>=|<>|:=:|:<>:|:=|\*\*|\|\||[-+*/<>=\[\]{}().,;:?|\\@$])
  | (?P<other>.)
''', re.X | re.S)


def tokenize(text):
    """-> list of (kind, lexeme); white space and remarks are tokens too, so ''.join(lexemes) == text."""
    out = []
    for m in _TOK.finditer(text):
        k = m.lastgroup
        lx = m.group()
        if k == 'id' and lx.upper() in KWSET:
            k = 'kw'
        out.append((k, lx))
    return out


def sig_tokens(toks):
    """Indices of tokens that carry syntax (not white space / remarks)."""
    return [i for i, (k, _) in enumerate(toks) if k not in ('ws', 'tail', 'rem')]


def construct_at(toks, i):
    """Name of the innermost declaration/statement construct a token index lies in (best effort, for keys/tags)."""
    openers = {'SCHEMA', 'TYPE', 'ENTITY', 'FUNCTION', 'PROCEDURE', 'RULE', 'CONSTANT', 'LOCAL', 'REPEAT', 'IF', 'CASE', 'ALIAS'}
    stack = []
    for j in range(0, i + 1):
        k, lx = toks[j]
        if k != 'kw':
            continue
        u = lx.upper()
        if u in openers:
            stack.append(u)
        elif u.startswith('END_') and stack:
            w = u[4:]
            while stack and stack[-1] != w:
                stack.pop()
            if stack:
                stack.pop()
    sec = None
    for j in range(i, -1, -1):
        k, lx = toks[j]
        if k == 'kw' and lx.upper() in ('DERIVE', 'INVERSE', 'UNIQUE', 'WHERE', 'SUBTYPE', 'SUPERTYPE', 'SELECT', 'ENUMERATION', 'USE',
                                        'REFERENCE', 'QUERY', 'RETURN'):
            sec = lx.upper()
            break
        if k == 'kw' and lx.upper() in openers or (k == 'kw' and lx.upper().startswith('END_')):
            break
    top = stack[-1] if stack else 'top'
    return top + ('/' + sec if sec else '')


def tok_class(k, lx):
    if k == 'kw':
        return lx.upper()
    if k == 'op':
        return lx
    return k


# ---------------------------------------------------------------------------------------------------------------
# mutation operators

TOKEN_OPS = ('delete', 'duplicate', 'swap', 'keyword')   # 'ident' exists too but is not drawn at random: see ident_grid()
BYTE_OPS = ('nul', 'highbit', 'nonl', 'truncate', 'flip', 'insert')


def token_mutant(rng, toks, op=None):
    """One token-level mutant.  -> (text, op, construct, token class hit)."""
    sig = sig_tokens(toks)
    op = op or rng.choice(TOKEN_OPS)
    t = list(toks)
    p = rng.randrange(len(sig))
    i = sig[p]
    cons = construct_at(toks, i)
    cls = tok_class(*toks[i])
    if op == 'delete':
        del t[i]
    elif op == 'duplicate':
        t.insert(i, (' ', ' '))
        t.insert(i, toks[i])
    elif op == 'swap':
        j = sig[p + 1] if p + 1 < len(sig) else sig[p - 1]
        t[i], t[j] = t[j], t[i]
    elif op == 'keyword':
        kw = rng.choice(KEYWORDS)
        t[i] = ('kw', kw if rng.random() < .8 else kw.lower())
        if toks[i][0] not in ('kw', 'id'):
            t.insert(i + 1, (' ', ' '))
            t.insert(i, (' ', ' '))
    elif op == 'ident':
        # an identifier (or, failing that, any token) becomes another identifier / literal / SELF / ? of the same file
        ids = [j for j in sig if toks[j][0] == 'id']
        if ids:
            i = rng.choice(ids)
            cons = construct_at(toks, i)
            cls = 'id'
        pool = sorted(set(lx for k, lx in toks if k == 'id')) + ['SELF', '?', '1', "'s'", '[]', 'TRUE']
        t[i] = ('id', rng.choice(pool))
    else:
        raise ValueError(op)
    return ''.join(lx for _, lx in t), op, cons, cls


def byte_mutant(rng, data, op=None):
    """One byte-level mutant of bytes.  -> (bytes, op, detail)."""
    op = op or rng.choice(BYTE_OPS)
    n = len(data)
    if op == 'nul':
        p = rng.randrange(n)
        k = rng.choice((1, 1, 2, 8))
        return data[:p] + b'\0' * k + (data[p + k:] if rng.random() < .5 else data[p:]), op, 'x%d' % k
    if op == 'highbit':
        p = rng.randrange(n)
        k = rng.choice((1, 1, 3))
        bs = bytes(rng.randrange(0x80, 0x100) for _ in range(k))
        return data[:p] + bs + (data[p + k:] if rng.random() < .5 else data[p:]), op, 'x%d' % k
    if op == 'nonl':
        return data.rstrip(b'\r\n \t'), op, 'stripped'
    if op == 'truncate':
        p = rng.randrange(n + 1)
        return data[:p], op, 'at sampled offset'
    if op == 'flip':
        p = rng.randrange(n)
        return data[:p] + bytes([data[p] ^ (1 << rng.randrange(8))]) + data[p + 1:], op, 'bit'
    if op == 'insert':
        p = rng.randrange(n + 1)
        c = rng.choice([b"'", b'"', b'(*', b'*)', b'--', b'(', b')', b'[', b']', b'{', b'}', b';', b'\\', b'%', b'\r', b'\t', b'\x0c',
                        b'\x1a', b'\x7f', b'@', b'$', b'#', b'!', b'`', b'~', b'^', b'&', b'_'])
        return data[:p] + c + data[p:], op, 'punct'
    raise ValueError(op)


# ---------------------------------------------------------------------------------------------------------------
# richer valid schemas

class Rich(object):
    """Random schema with types, entities (supertype expressions, DERIVE, INVERSE, UNIQUE, WHERE), constants,
    functions (nested, every statement kind, most expression operators), procedures and rules.

    `avoid` masks features (each masked feature is tied to an open finding and exercised by a fixed probe in c06_shapes).
    """

    FEATURES = ('binary_literal', 'encoded_string', 'nested_function', 'query', 'alias', 'case', 'repeat', 'interval', 'rule',
                'procedure', 'constant', 'select', 'enum', 'supertype_expr', 'inverse', 'derive', 'unique', 'where', 'remarks',
                'tail_remark', 'use_from', 'reference_from', 'generic', 'aggregate_init', 'group_qualifier', 'substring',
                'long_string', 'repeat_bare', 'rename_as')

    def __init__(self, rng, avoid=()):
        self.rng = rng
        self.avoid = set(avoid)
        self.tags = set()

    def ok(self, f, p=.5):
        if f in self.avoid:
            return False
        if self.rng.random() < p:
            self.tags.add(f)
            return True
        return False

    # ---- expressions, typed; env = dict(ints=[...], reals=[...], strs=[...], logs=[...], lists=[...], bins=[...])
    def e_int(self, env, d):
        r = self.rng
        if d <= 0 or r.random() < .3:
            c = []
            c += env['ints'] * 2
            c += [str(r.choice((0, 1, 2, 7, 10, 255, 65536, 2147483647)))]
            return r.choice(c)
        k = r.randrange(14)
        a = lambda: self.e_int(env, d - 1)
        if k == 0:
            return '(%s %s %s)' % (a(), r.choice('+-*'), a())
        if k == 1:
            return '%s %s %s' % (a(), r.choice(('DIV', 'MOD')), r.choice(('2', '3', '7')))
        if k == 2:
            return '-%s' % self.e_int(env, 0)
        if k == 3 and env['lists']:
            return 'SIZEOF(%s)' % self.e_list(env, d - 1)
        if k == 4 and env['lists']:
            return '%s(%s)' % (r.choice(('HIINDEX', 'LOINDEX', 'HIBOUND', 'LOBOUND')), r.choice(env['lists']))
        if k == 5 and env['strs']:
            return 'LENGTH(%s)' % self.e_str(env, d - 1)
        if k == 6 and env['lists']:
            return '%s[%s]' % (r.choice(env['lists']), self.e_int(env, 0))
        if k == 7:
            return 'ABS(%s)' % a()
        if k == 8 and env['ints']:
            return 'NVL(%s, %s)' % (r.choice(env['ints']), a())
        if k == 9 and env['bins'] and 'binary_literal' not in self.avoid:
            return 'BLENGTH(%s)' % r.choice(env['bins'])
        if k == 10 and env['lists'] and self.ok('query', 1):
            v = 'q%d' % d
            e2 = dict(env, ints=env['ints'] + [v])
            return 'SIZEOF(QUERY(%s <* %s | %s))' % (v, self.e_list(env, d - 1), self.e_log(e2, d - 1))
        if k == 11:
            return '%s ** 2' % self.e_int(env, 0)
        if k == 12 and env.get('ifuncs'):
            return '%s(%s)' % (r.choice(env['ifuncs']), a())
        return '(%s)' % a()

    def e_real(self, env, d):
        r = self.rng
        if d <= 0 or r.random() < .3:
            c = env['reals'] * 2 + [r.choice(('0.0', '1.5', '3.', '1.0E+3', '2.5e-7', '1.E10', 'PI', 'CONST_E', '12345678.875'))]
            return r.choice(c)
        k = r.randrange(6)
        a = lambda: self.e_real(env, d - 1)
        if k == 0:
            return '(%s %s %s)' % (a(), r.choice('+-*/'), a())
        if k == 1:
            return '%s(%s)' % (r.choice(('SQRT', 'SIN', 'COS', 'TAN', 'EXP', 'LOG', 'LOG2', 'LOG10', 'ASIN', 'ACOS', 'ABS')), a())
        if k == 2:
            return 'ATAN(%s, %s)' % (a(), a())
        if k == 3:
            return '(%s * %s)' % (self.e_int(env, d - 1), a())
        if k == 4:
            return '-%s' % self.e_real(env, 0)
        return '%s ** %s' % (self.e_real(env, 0), self.e_int(env, 0))

    def s_lit(self):
        r = self.rng
        c = ["''", "'a'", "'it''s'", "'a*b?c'", "'(* not a remark *)'", "'-- not a remark'", "'x;y'", "'  '", "'\\n'", "'#@!^&$'"]
        if self.ok('encoded_string', .15):
            c.append('"00000041"')
        if self.ok('long_string', .1):
            return "'" + 'abcdefghij' * r.choice((20, 90)) + "'"
        return r.choice(c)

    def e_str(self, env, d):
        r = self.rng
        if d <= 0 or r.random() < .4:
            return r.choice(env['strs'] + [self.s_lit(), self.s_lit()])
        k = r.randrange(4)
        if k == 0:
            return '(%s + %s)' % (self.e_str(env, d - 1), self.e_str(env, d - 1))
        if k == 1 and env['strs'] and self.ok('substring', 1):
            return '%s[%s:%s]' % (r.choice(env['strs']), self.e_int(env, 0), self.e_int(env, 0))
        if k == 2:
            return "FORMAT(%s, %s)" % (self.e_int(env, d - 1), r.choice(("'5I'", "'+7.2F'", "''")))
        return self.e_str(env, d - 1)

    def e_bin(self, env):
        r = self.rng
        c = list(env['bins'])
        if 'binary_literal' not in self.avoid:
            self.tags.add('binary_literal')
            c += ['%0', '%1', '%101101', '%' + '10' * 40]
        return r.choice(c) if c else None

    def e_log(self, env, d):
        r = self.rng
        if d <= 0 or r.random() < .25:
            return r.choice(env['logs'] + ['TRUE', 'FALSE', 'UNKNOWN'])
        k = r.randrange(13)
        a = lambda: self.e_log(env, d - 1)
        if k == 0:
            return '(%s %s %s)' % (self.e_int(env, d - 1), r.choice(('<', '<=', '>', '>=', '=', '<>')), self.e_int(env, d - 1))
        if k == 1:
            return '(%s %s %s)' % (self.e_real(env, d - 1), r.choice(('<', '>=', '=', '<>')), self.e_real(env, d - 1))
        if k == 2:
            return '(%s LIKE %s)' % (self.e_str(env, d - 1), r.choice(("'a*'", "'?b@'", "'\\\\*'", "'#&^$'")))
        if k == 3 and env['lists']:
            return '(%s IN %s)' % (self.e_int(env, d - 1), self.e_list(env, d - 1))
        if k == 4:
            return '(NOT %s)' % a()
        if k == 5:
            return '(%s %s %s)' % (a(), r.choice(('AND', 'OR', 'XOR')), a())
        if k == 6 and env['ints']:
            return 'EXISTS(%s)' % r.choice(env['ints'] + env['strs'])
        if k == 7 and self.ok('interval', 1):
            return '{%s %s %s %s %s}' % (self.e_int(env, 0), r.choice(('<', '<=')), self.e_int(env, d - 1), r.choice(('<', '<=')),
                                         self.e_int(env, 0))
        if k == 8 and env.get('insts'):
            return "('%s' IN TYPEOF(%s))" % (r.choice(env['tnames']), r.choice(env['insts']))
        if k == 9:
            return '(%s %s %s)' % (self.e_str(env, d - 1), r.choice(('=', '<>', '<')), self.e_str(env, d - 1))
        if k == 10 and env['lists']:
            return '(%s %s %s)' % (self.e_list(env, d - 1), r.choice((':=:', ':<>:', '=', '<=')), self.e_list(env, d - 1))
        if k == 11:
            b1, b2 = self.e_bin(env), self.e_bin(env)
            if b1 and b2:
                return '(%s = %s)' % (b1, b2)
        if k == 12:
            return 'ODD(%s)' % self.e_int(env, d - 1)
        return a()

    def e_list(self, env, d):
        r = self.rng
        if d <= 0 or r.random() < .35:
            c = list(env['lists'])
            if self.ok('aggregate_init', 1):
                c += ['[]', '[1, 2, 3]', '[%s]' % self.e_int(env, 0), '[%s : %s]' % (self.e_int(env, 0), r.choice(('2', '3')))]
            return r.choice(c) if c else '[1]'
        k = r.randrange(4)
        if k == 0:
            return '(%s + %s)' % (self.e_list(env, d - 1), self.e_list(env, d - 1))
        if k == 1:
            return '(%s + %s)' % (self.e_list(env, d - 1), self.e_int(env, d - 1))
        if k == 2 and self.ok('query', 1):
            v = 'p%d' % d
            e2 = dict(env, ints=env['ints'] + [v])
            return 'QUERY(%s <* %s | %s)' % (v, self.e_list(env, d - 1), self.e_log(e2, d - 1))
        return '[%s, %s]' % (self.e_int(env, d - 1), self.e_int(env, d - 1))

    # ---- statements
    def stmts(self, env, d, ind, n=None, in_repeat=False):
        r = self.rng
        out = []
        for _ in range(n or r.randint(1, 4)):
            out += self.stmt(env, d, ind, in_repeat)
        return out

    def stmt(self, env, d, ind, in_repeat=False):
        r = self.rng
        sp = ' ' * ind
        k = r.randrange(14) if d > 0 else r.randrange(5)
        if k == 0 and env['wints']:
            return ['%s%s := %s;' % (sp, r.choice(env['wints']), self.e_int(env, 2))]
        if k == 1 and env['wreals']:
            return ['%s%s := %s;' % (sp, r.choice(env['wreals']), self.e_real(env, 2))]
        if k == 2 and env['wstrs']:
            return ['%s%s := %s;' % (sp, r.choice(env['wstrs']), self.e_str(env, 2))]
        if k == 3 and env['wlogs']:
            return ['%s%s := %s;' % (sp, r.choice(env['wlogs']), self.e_log(env, 2))]
        if k == 4 and env['wlists']:
            return ['%s%s := %s;' % (sp, r.choice(env['wlists']), self.e_list(env, 2))]
        if k == 5:
            o = ['%sIF %s THEN' % (sp, self.e_log(env, 2))] + self.stmts(env, d - 1, ind + 2, in_repeat=in_repeat)
            if r.random() < .5:
                o += [sp + 'ELSE'] + self.stmts(env, d - 1, ind + 2, in_repeat=in_repeat)
            return o + [sp + 'END_IF;']
        if k == 6 and self.ok('repeat', 1):
            v = 'k%d' % d
            hdr = r.choice(('%s := 1 TO %s' % (v, self.e_int(env, 1)), '%s := %s TO 1 BY -1' % (v, self.e_int(env, 1)),
                            'WHILE %s' % self.e_log(env, 1), 'UNTIL %s' % self.e_log(env, 1),
                            '' if self.ok('repeat_bare', 1) else 'UNTIL TRUE',
                            '%s := 1 TO 10 WHILE %s UNTIL %s' % (v, self.e_log(env, 1), self.e_log(env, 1))))
            e2 = dict(env, ints=env['ints'] + [v]) if hdr.startswith(v) else env
            return ['%sREPEAT %s;' % (sp, hdr)] + self.stmts(e2, d - 1, ind + 2, in_repeat=True) + [sp + 'END_REPEAT;']
        if k == 7 and self.ok('case', 1):
            o = ['%sCASE %s OF' % (sp, self.e_int(env, 1))]
            o += ['%s  1 : %s' % (sp, self.stmt(env, 0, 0)[0].strip())]
            o += ['%s  2, 3 : BEGIN' % sp] + self.stmts(env, d - 1, ind + 4, in_repeat=in_repeat) + [sp + '  END;']
            if r.random() < .6:
                o += ['%s  OTHERWISE : %s' % (sp, self.stmt(env, 0, 0)[0].strip())]
            return o + [sp + 'END_CASE;']
        if k == 8 and env['wlists'] and self.ok('alias', 1):
            v = 'al%d' % d
            src = r.choice(env['wlists'])
            e2 = dict(env, wlists=env['wlists'] + [v])   # the checker does not type alias variables: no indexing / QUERY over them
            return ['%sALIAS %s FOR %s;' % (sp, v, src)] + self.stmts(e2, d - 1, ind + 2, in_repeat=in_repeat) + [sp + 'END_ALIAS;']
        if k == 9:
            return [sp + 'BEGIN'] + self.stmts(env, d - 1, ind + 2, in_repeat=in_repeat) + [sp + 'END;']
        if k == 10 and in_repeat:
            return [sp + r.choice(('SKIP;', 'ESCAPE;'))]
        if k == 11 and env['wlists']:
            return [r.choice(('%sINSERT(%s, %s, 0);', '%sREMOVE(%s, %s);')) % (sp, r.choice(env['wlists']), self.e_int(env, 1))]
        if k == 12 and env.get('procs') and env['wints'] and env['wlists']:
            return ['%s%s(%s, %s);' % (sp, r.choice(env['procs']), r.choice(env['wints']), r.choice(env['wlists']))]
        if k == 13:
            return [sp + ';']
        return ['%s%s := %s;' % (sp, env['wints'][0], self.e_int(env, 1))] if env['wints'] else [sp + ';']

    LOCALS = ['i, j : INTEGER := 0;', 'r : REAL;', 's : STRING := \'\';', 'b : BOOLEAN;', 'l : LOGICAL := UNKNOWN;',
              'li : LIST OF INTEGER := [];']

    def fenv(self, extra=None, binv=False):
        env = dict(ints=['i', 'j', 'n'], reals=['r', 'x'], strs=['s'], logs=['b', 'l'], lists=['li', 'a'], bins=['bn'] if binv else [],
                   wints=['i', 'j'], wreals=['r'], wstrs=['s'], wlogs=['b', 'l'], wlists=['li'])
        if extra:
            env.update(extra)
        return env

    def function(self, name, ctx, depth=0, ind=0):
        """FUNCTION name(n : INTEGER; x : REAL; a : LIST OF INTEGER) : INTEGER"""
        r = self.rng
        sp = ' ' * ind
        binv = 'binary_literal' not in self.avoid and r.random() < .3
        env = self.fenv(ctx, binv)
        gen = self.ok('generic', .15)
        o = ['%sFUNCTION %s(n : INTEGER; x : REAL; a : %s) : INTEGER;' %
             (sp, name, 'AGGREGATE OF INTEGER' if gen else 'LIST [0:?] OF INTEGER')]
        inner = None
        if depth < 2 and self.ok('nested_function', .35 if depth == 0 else .2):
            inner = '%s_in' % name
            o += self.function(inner, ctx, depth + 1, ind + 2)
        o += [sp + 'LOCAL'] + [sp + '  ' + x for x in self.LOCALS]
        if binv:
            o += [sp + '  bn : BINARY := %s;' % self.e_bin(dict(bins=[]))]
        o += [sp + 'END_LOCAL;']
        if self.ok('remarks', .3):
            o += [sp + '(* remark ' + r.choice(('(* nested *) ', "with ' quote ", '-- dashes ', '* stars ** ', '')) + '*)']
        if inner:
            env = dict(env, ifuncs=list(env.get('ifuncs', [])) + [])
            o += ['%s  i := %s(%s, x, a);' % (sp, inner, self.e_int(env, 1))]
        o += self.stmts(env, 3 - depth, ind + 2, n=r.randint(2, 6))
        o += ['%s  RETURN (%s);' % (sp, self.e_int(env, 2)), sp + 'END_FUNCTION;' + (' -- ' + name if self.ok('tail_remark', .2) else '')]
        return o

    def procedure(self, name, ctx):
        env = self.fenv(ctx)
        env = dict(env, ints=['i', 'j', 'n', 'v'], wints=['i', 'j', 'v'], lists=['li', 'a'], wlists=['li', 'a'])
        o = ['PROCEDURE %s(VAR v : INTEGER; VAR a : LIST OF INTEGER);' % name, 'LOCAL', '  n : INTEGER := 3;', '  x : REAL := 0.5;']
        o += ['  ' + x for x in self.LOCALS] + ['END_LOCAL;']
        o += self.stmts(env, 2, 2, n=self.rng.randint(1, 4)) + ['END_PROCEDURE;']
        return o

    def schema(self, name, others=()):
        """-> list of lines for one SCHEMA."""
        r = self.rng
        p = name
        o = ['SCHEMA %s;' % name, '']
        ents = ['%s_e%d' % (p, i) for i in range(r.randint(3, 7))]
        for oth, oents in others:
            if self.ok('use_from', .5):
                pick = r.sample(oents, min(len(oents), r.randint(1, 2)))
                o += ['USE FROM %s (%s);' % (oth, ', '.join(pick))] if r.random() < .7 else ['USE FROM %s;' % oth]
            elif self.ok('reference_from', .6):
                o += ['REFERENCE FROM %s (%s_f0%s);' % (oth, oth, ' AS %s_rf' % p if self.ok('rename_as', .4) else '')]
        o += ['']
        consts = []
        if self.ok('constant', .6):
            env0 = dict(ints=[], reals=[], strs=[], logs=[], lists=[], bins=[])
            o += ['CONSTANT', '  %s_ci : INTEGER := %s;' % (p, self.e_int(env0, 2)), '  %s_cr : REAL := %s;' % (p, self.e_real(env0, 2)),
                  '  %s_cs : STRING := %s;' % (p, self.e_str(env0, 1)), '  %s_cl : LIST OF INTEGER := [1, 2, %s_ci];' % (p, p)]
            if 'binary_literal' not in self.avoid and r.random() < .3:
                o += ['  %s_cb : BINARY := %s;' % (p, self.e_bin(dict(bins=[])))]
            o += ['END_CONSTANT;', '']
            consts = ['%s_ci' % p]
        # types
        tint, tstr, treal = p + '_cnt', p + '_label', p + '_len'
        cenv = dict(ints=['SELF'] + consts, reals=[], strs=[], logs=[], lists=[], bins=[])
        o += ['TYPE %s = INTEGER;' % tint] + (['WHERE', '  wr1 : EXISTS(SELF) OR %s;' % self.e_log(cenv, 2), '  SELF >= 0;'] if self.ok('where', .5) else []) + ['END_TYPE;']
        o += ['TYPE %s = STRING%s;' % (tstr, r.choice(('', '(32)', '(8) FIXED'))), 'END_TYPE;', 'TYPE %s = REAL%s;' % (treal, r.choice(('', '(6)'))), 'END_TYPE;']
        o += ['TYPE %s_ids = %s [%s:%s] OF %s%s;' % (p, r.choice(('LIST', 'SET', 'BAG')), r.choice('01'), r.choice(('?', '5')),
                                                   'UNIQUE ' if False else '', tint), 'END_TYPE;']
        o += ['TYPE %s_mat = ARRAY [1:3] OF %sARRAY [0:2] OF REAL;' % (p, r.choice(('', 'OPTIONAL '))), 'END_TYPE;']
        enum = None
        if self.ok('enum', .7):
            enum = p + '_colour'
            o += ['TYPE %s = ENUMERATION OF (%s);' % (enum, ', '.join('%s_%s' % (p, x) for x in r.sample(['red', 'green', 'blue', 'grey'], r.randint(1, 4)))), 'END_TYPE;']
        sel = None
        if self.ok('select', .7):
            sel = p + '_sel'
            o += ['TYPE %s = SELECT (%s);' % (sel, ', '.join(r.sample(ents, r.randint(1, min(3, len(ents)))) + ([tstr] if r.random() < .5 else []))), 'END_TYPE;']
        o += ['']
        # functions first (EXPRESS has no declaration-before-use rule, so entities may call them)
        nf = r.randint(1, 3)
        fnames = ['%s_f%d' % (p, i) for i in range(nf)]
        procs = []
        ctx = dict(tnames=[('%s.%s' % (name, e)).upper() for e in ents])
        if self.ok('procedure', .5):
            procs = [p + '_pr']
            o += self.procedure(procs[0], ctx) + ['']
        for i, f in enumerate(fnames):
            o += self.function(f, dict(ctx, ifuncs=fnames[:i], procs=procs)) + ['']
        # entities
        parent = {}
        attrs = {}
        for i, e in enumerate(ents):
            sup = []
            if i > 0 and r.random() < .55:
                sup = [r.choice(ents[:i])]
                if i > 2 and r.random() < .2:
                    s2 = r.choice(ents[:i])
                    if s2 not in sup and not self._related(parent, s2, sup[0]):
                        sup.append(s2)
            parent[e] = sup
        children = {e: [c for c in ents if e in parent[c]] for e in ents}
        for i, e in enumerate(ents):
            hdr = 'ENTITY %s' % e
            ch = children[e]
            if ch and self.ok('supertype_expr', .6):
                if len(ch) == 1:
                    ex = r.choice(('%s', 'ONEOF (%s)')) % ch[0]
                else:
                    a, b = ch[0], ch[1]
                    ex = r.choice(('ONEOF (%s, %s)', '%s ANDOR %s', '%s AND %s', '(%s) ANDOR (%s)')) % (a, b)
                    if len(ch) > 2:
                        ex = '%s %s ONEOF (%s)' % (ex, r.choice(('ANDOR', 'AND')), ', '.join(ch[2:]))
                hdr += '\n  %sSUPERTYPE OF (%s)' % ('ABSTRACT ' if r.random() < .4 else '', ex)
            elif r.random() < .1:
                hdr += '\n  ABSTRACT SUPERTYPE'
            if parent[e]:
                hdr += '\n  SUBTYPE OF (%s)' % ', '.join(parent[e])
            o += [hdr + ';']
            al = []
            for k in range(r.randint(0 if parent[e] else 1, 4)):
                an = '%s_a%d' % (e.split('_')[-1], k)
                ty = r.choice(['INTEGER', 'REAL', 'STRING', 'BOOLEAN', 'LOGICAL', 'NUMBER', tint, tstr, treal, p + '_ids', p + '_mat',
                               'LIST [1:?] OF ' + tstr, 'SET OF ' + r.choice(ents), r.choice(ents), r.choice(ents)]
                              + ([enum] if enum else []) + ([sel, 'LIST OF ' + sel] if sel else [])
                              + (['BINARY', 'BINARY (8)'] if 'binary_literal' not in self.avoid else []))
                al.append((an, ty))
                o += ['  %s : %s%s;' % (an, 'OPTIONAL ' if r.random() < .3 else '', ty)]
            attrs[e] = al
            ints = [a for a, t in al if t in ('INTEGER', tint)]
            strs = [a for a, t in al if t in ('STRING', tstr)]
            senv = dict(ints=['SELF.' + a for a in ints] + consts, reals=[], strs=['SELF.' + a for a in strs], logs=[], lists=[], bins=[],
                        ifuncs=[], insts=['SELF'], tnames=ctx['tnames'])
            if self.ok('group_qualifier', .4) and parent[e]:
                pi = [a for a, t in attrs[parent[e][0]] if t in ('INTEGER', tint)]
                senv['ints'] += ['SELF\\%s.%s' % (parent[e][0], a) for a in pi]
            if self.ok('derive', .45):
                o += ['DERIVE', '  %s_d : INTEGER := %s;' % (e.split('_')[-1], r.choice(('%s(%s, 1.0, [1])' % (r.choice(fnames), self.e_int(senv, 1)), self.e_int(senv, 2))))]
                if r.random() < .3:
                    o += ['  %s_ds : STRING := %s;' % (e.split('_')[-1], self.e_str(senv, 2))]
            refs = [(o2, a) for o2 in ents for a, t in attrs.get(o2, []) if t == e]
            if refs and self.ok('inverse', .6):
                o2, a = r.choice(refs)
                o += ['INVERSE', '  %s_inv : %s%s FOR %s;' % (e.split('_')[-1], r.choice(('', 'SET [0:?] OF ', 'BAG OF ')), o2, a)]
            if len(al) >= 1 and self.ok('unique', .35):
                o += ['UNIQUE', '  ur1 : %s;' % ', '.join(a for a, _ in al[:2])] + (['  %s;' % al[-1][0]] if len(al) > 2 else [])
            if self.ok('where', .5):
                o += ['WHERE', '  wr1 : EXISTS(SELF) OR %s;' % self.e_log(senv, 2)] + (['  (SELF = SELF) AND %s;' % self.e_log(senv, 1)] if r.random() < .3 else [])
            o += ['END_ENTITY;' + (' -- %s' % e if self.ok('tail_remark', .15) else ''), '']
        if self.ok('rule', .5):
            e = r.choice(ents)
            renv = dict(ints=consts or ['1'], reals=[], strs=[], logs=[], lists=[], bins=[], ifuncs=[])
            o += ['RULE %s_r FOR (%s);' % (p, e), 'LOCAL', '  cnt : INTEGER := 0;', 'END_LOCAL;', '  cnt := SIZEOF(%s);' % e, 'WHERE',
                  '  wr1 : cnt >= 0;', '  wr2 : SIZEOF(QUERY(t <* %s | %s)) = 0;' % (e, self.e_log(dict(renv, insts=['t'], tnames=ctx['tnames']), 2)),
                  'END_RULE;', '']
        o += ['END_SCHEMA;' + (' -- end' if self.ok('tail_remark', .3) else '')]
        self._ents = ents
        return o

    @staticmethod
    def _related(parent, a, b):
        def anc(x):
            s, todo = set(), [x]
            while todo:
                y = todo.pop()
                for z in parent.get(y, []):
                    if z not in s:
                        s.add(z)
                        todo.append(z)
            return s
        return a == b or a in anc(b) or b in anc(a)

    def file(self, stem):
        """-> text of a file with 1-3 schemas."""
        r = self.rng
        n = r.choice((1, 1, 1, 2, 3))
        lines, others = [], []
        if self.ok('remarks', .4):
            lines += ['(* file %s' % stem, '   (* nested remark *) with ; and END_SCHEMA; inside', '*)']
        for i in range(n):
            nm = '%s%s' % (stem, 'abc'[i] if n > 1 else '')
            lines += self.schema(nm, others) + ['']
            others.append((nm, list(self._ents)))
        return '\n'.join(lines)


def rich_corpus(rng, n, avoid=(), stem='rs'):
    """-> [(text, sorted tags)]"""
    out = []
    for i in range(n):
        g = Rich(rng, avoid)
        out.append((g.file('%s%d' % (stem, i)), sorted(g.tags)))
    return out


# ---------------------------------------------------------------------------------------------------------------
# classified identifier replacement (deterministic grid, seed independent): every kind of name at every kind of site is
# replaced by one representative of every other kind - the inputs on which look-ups fail or find the wrong kind of object

_KIND_PATTERNS = (
    ('entity', r'_e\d+$'), ('function', r'_f\d+(_in)?$'), ('procedure', r'_pr$'), ('constant', r'_c[irslb]$'),
    ('defined type', r'_(cnt|label|len)$'), ('aggregate type', r'_(ids|mat)$'), ('enumeration type', r'_colour$'),
    ('select type', r'_sel$'), ('enumeration item', r'_(red|green|blue|grey)$'), ('explicit attribute', r'^e\d+_a\d+$'),
    ('derived attribute', r'^e\d+_ds?$'), ('inverse attribute', r'^e\d+_inv$'), ('rule', r'_r$'), ('rule label', r'^(wr|ur)\d$'),
    ('local or parameter', r'^(i|j|r|s|b|l|li|bn|n|x|a|v|cnt|t)$'), ('loop, query or alias variable', r'^(k|q|p|al)\d$'),
)


def ident_kind(name, schemas=()):
    if name in schemas:
        return 'schema'
    for k, pat in _KIND_PATTERNS:
        if re.search(pat, name):
            return k
    return 'other'


def grid_base():
    """A fixed two-schema file from Rich (own rng, independent of the check's seed) that has every kind of name."""
    import random
    for n in range(200):
        g = Rich(random.Random('c06/grid/%d' % n), avoid=('repeat_bare', 'rename_as', 'long_string', 'remarks', 'tail_remark'))
        r = g.rng
        a = g.schema('ga')
        ea = list(g._ents)
        b = g.schema('gb', [('ga', ea)])
        text = '\n'.join(a + [''] + b) + '\n'
        kinds = set(ident_kind(lx, ('ga', 'gb')) for k, lx in tokenize(text) if k == 'id')
        if len(text) < 9000 and all(k in kinds for k, _ in _KIND_PATTERNS) and 'USE FROM' in text:
            return text
    raise RuntimeError('no grid base found')


def ident_grid(per_site=1):
    """-> (base text, [(mutant text, site kind, replacement kind, context)]) - deterministic."""
    base = grid_base()
    toks = tokenize(base)
    schemas = ('ga', 'gb')
    reps = {}
    for k, lx in toks:
        if k == 'id':
            reps.setdefault(ident_kind(lx, schemas), lx)
    reps.pop('other', None)
    extra = [('SELF', 'SELF'), ('indeterminate ?', '?'), ('integer literal', '1'), ('string literal', "'s'"), ('empty aggregate', '[]'),
             ('undeclared name', 'nowhere_declared')]
    seen = {}
    out = []
    for i, (k, lx) in enumerate(toks):
        if k != 'id':
            continue
        sk = ident_kind(lx, schemas)
        if sk == 'other':
            continue
        ctx = construct_at(toks, i)
        # declaration or use?  (a name directly after ENTITY/TYPE/FUNCTION/... or before ':' in a declaration is a declaration)
        prev = next((toks[j][1].upper() for j in range(i - 1, -1, -1) if toks[j][0] not in ('ws', 'rem', 'tail')), '')
        role = 'declaration of' if prev in ('ENTITY', 'TYPE', 'FUNCTION', 'PROCEDURE', 'RULE', 'SCHEMA') else 'reference to'
        site = '%s %s in %s' % (role, sk, ctx)
        if seen.get(site, 0) >= per_site:
            continue
        seen[site] = seen.get(site, 0) + 1
        for rk, rl in list(sorted(reps.items())) + extra:
            if rl == lx:
                continue
            t = list(toks)
            t[i] = ('id', rl)
            out.append((''.join(x for _, x in t), '%s %s' % (role, sk), rk, ctx))
    return base, out
