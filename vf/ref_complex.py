"""Reference legality predicate for complex (externally mapped) instances - a direct transcription of C08.

legal(schema, T) for a set T of entity names:
 (i)   every supertype of each member is in T;
 (ii)  for each member e with direct subtypes present P = T & subs(e): P is empty and e is not ABSTRACT,
       or P is one of the subtype sets the SUPERTYPE OF expression of e allows, where
         R(leaf s) = {{s}},  R(ONEOF(a..)) = U R(a_i),  R(a AND b) = {p|q},  R(a ANDOR b) = R(a) | R(b) | {p|q}
       and direct subtypes not mentioned in the expression are ANDOR-ed at top level (ISO 10303-11 9.2.5.x);
 (iii) ABSTRACT members therefore always have a subtype present (follows from (ii)).
"""
from .model import sexpr_leaves


def R(e):
    k = e[0]
    if k == 'leaf':
        return {frozenset([e[1]])}
    if k == 'oneof':
        r = set()
        for x in e[1]:
            r |= R(x)
        return r
    a, b = R(e[1]), R(e[2])
    both = {p | q for p in a for q in b}
    return both if k == 'and' else a | b | both


def full_expr(schema, n):
    ent = schema.entity(n)
    subs = schema.subs(n)
    ex = ent.sexpr
    if ex:
        mentioned = set(sexpr_leaves(ex))
        full = ex
        for x in subs:
            if x not in mentioned:
                full = ('andor', full, ('leaf', x))
        return full
    full = None
    for x in subs:
        full = ('leaf', x) if full is None else ('andor', full, ('leaf', x))
    return full


def why_illegal(schema, T):
    """None when legal, else a short constraint-shape string naming the first violated clause."""
    T = set(T)
    for e in sorted(T):
        ent = schema.entity(e)
        if not set(ent.supers) <= T:
            return 'supertype missing' + (' (multi-super)' if len(ent.supers) > 1 else '')
    for e in sorted(T):
        ent = schema.entity(e)
        subs = schema.subs(e)
        P = frozenset(T & set(subs))
        if not P:
            if ent.abstract:
                return 'abstract without subtype'
            continue
        full = full_expr(schema, e)
        # subtypes whose own mention is nested deeper (e.g. leaf under ONEOF) are all direct subtypes here
        if P not in R(full):
            kinds = set()

            def walk(x):
                kinds.add(x[0])
                if x[0] == 'oneof':
                    for y in x[1]:
                        walk(y)
                elif x[0] != 'leaf':
                    walk(x[1])
                    walk(x[2])
            if ent.sexpr:
                walk(ent.sexpr)
            return 'subtype combination not allowed by ' + '/'.join(sorted(k.upper() for k in kinds if k != 'leaf')) if kinds - {'leaf'} else 'subtype combination not allowed'
    return None


def legal(schema, T):
    return why_illegal(schema, T) is None


def leaves_of(schema, T):
    T = set(T)
    return [e for e in T if not (set(schema.subs(e)) & T)]


def connected(schema, T):
    """T forms one connected subtype/supertype graph (EXPRESS complex entity instances never join unrelated graphs)."""
    T = set(T)
    if not T:
        return False
    seen = set()
    todo = [sorted(T)[0]]
    while todo:
        x = todo.pop()
        if x in seen:
            continue
        seen.add(x)
        for y in T:
            if y not in seen and (y in schema.entity(x).supers or x in schema.entity(y).supers):
                todo.append(y)
    return seen == T
