"""Unclassified fault injectors for Part 21 text (C05): grammar-aware token mutations, stretching, truncation,
byte noise, fixed pathological shapes and exhaustive short parameter strings.  All return bytes."""
import copy
import re
import itertools
from . import ref_p21, gen_p21
from .model import SIMPLE

STRETCH = (100, 1000, 10000, 100000)


def _b(s):
    return s if isinstance(s, bytes) else s.encode('latin-1', 'replace')


def _tok_class(k, t):
    if k == 'p':
        return 'punct ' + t
    return {'str': 'string', 'bin': 'binary', 'enum': 'enumeration', 'real': 'real', 'int': 'integer', 'ref': 'reference',
            'kw': 'keyword', 'cmt': 'comment'}.get(k, k)


def p21_mutants(base, rng, n_tok, n_trunc):
    out = []
    try:
        toks = ref_p21.tokenize(base, keep_comments=True)
    except ref_p21.P21Error:
        return out
    dstart = base.find('DATA;')
    data_toks = [t for t in toks if t[2] > dstart]
    hdr_toks = [t for t in toks if t[2] <= dstart]

    def span(t):
        return t[2], t[2] + len(t[1])
    # --- token delete / duplicate / swap
    for _ in range(n_tok):
        pool = data_toks if rng.random() < .8 or not hdr_toks else hdr_toks
        if len(pool) < 3:
            break
        i = rng.randrange(len(pool) - 1)
        t = pool[i]
        a, b = span(t)
        op = rng.choice(['delete', 'duplicate', 'swap'])
        if op == 'delete':
            m = base[:a] + base[b:]
        elif op == 'duplicate':
            m = base[:b] + t[1] + base[b:]
        else:
            t2 = pool[i + 1]
            a2, b2 = span(t2)
            m = base[:a] + t2[1] + base[b:a2] + t[1] + base[b2:]
        out.append((_b(m), 'token ' + op, _tok_class(t[0], t[1]) + (' in header' if pool is hdr_toks else '')))
    # --- whole instance records: the same record twice (adjacent and at the end of the section), a record under the name of
    # another one, two records swapped - the second occurrence of a name re-reads into the object the first one made
    lines = base.split('\n')
    recs = [i for i, l in enumerate(lines) if re.match(r'^\s*[CIND]?\s*#\d+\s*=', l) and l.rstrip().endswith(';')]
    if len(recs) >= 2:
        end = next((i for i in range(recs[-1], len(lines)) if lines[i].startswith('ENDSEC')), len(lines))
        for k in range(max(2, n_tok // 8)):
            i = rng.choice(recs)
            how = ('adjacent', 'at the end of the section', 'under the name of another record', 'swapped with another record')[k % 4]
            ls = list(lines)
            if how == 'adjacent':
                ls.insert(i + 1, lines[i])
            elif how == 'at the end of the section':
                ls.insert(end, lines[i])
            elif how == 'under the name of another record':
                j = rng.choice([x for x in recs if x != i])
                name = re.match(r'^(\s*[CIND]?\s*#\d+)', lines[j]).group(1)
                ls.insert(end, re.sub(r'^\s*[CIND]?\s*#\d+', lambda m: name, lines[i], 1))
            else:
                j = rng.choice([x for x in recs if x != i])
                ls[i], ls[j] = ls[j], ls[i]
            out.append((_b('\n'.join(ls)), 'instance record repeated' if k % 4 < 3 else 'instance records swapped', how))
    # --- stretching
    bykind = {}
    for t in data_toks:
        bykind.setdefault(t[0], []).append(t)
    for kind in ('int', 'real', 'str', 'bin', 'enum', 'kw', 'ref', 'cmt'):
        if kind not in bykind:
            continue
        for L in STRETCH[:3] if n_tok < 30 else STRETCH:
            t = rng.choice(bykind[kind])
            a, b = span(t)
            if kind == 'int':
                new = '1' * L
            elif kind == 'real':
                new = rng.choice(['1' * L + '.', '1.' + '5' * L, '1.E' + '9' * min(L, 5000), '0.' + '0' * L + '1'])
            elif kind == 'str':
                new = "'" + rng.choice(['a', "''", '\\X\\41', ' ']) * (L // 2) + "'"
            elif kind == 'bin':
                new = '"0' + 'F' * L + '"'
            elif kind == 'enum':
                new = '.' + 'A' * L + '.'
            elif kind == 'kw':
                new = t[1] + 'X' * L
            elif kind == 'ref':
                new = '#' + '9' * min(L, 2000)
            else:
                new = '/*' + 'c' * L + '*/'
            out.append((_b(base[:a] + new + base[b:]), 'stretch to 10^%d' % (len(str(L)) - 1), _tok_class(kind, t[1])))
    # --- parenthesis imbalance / nesting
    for _ in range(4):
        t = rng.choice(data_toks)
        a, b = span(t)
        ch = rng.choice(['(', ')', '((((', '))))', ';', "'", '"', '/*', '*/', '#', '=', '&SCOPE', 'ENDSCOPE', 'ENDSEC;'])
        out.append((_b(base[:a] + ch + base[a:]), 'insert ' + ch, 'before ' + _tok_class(t[0], t[1])))
    # --- truncation
    n = len(base)
    offs = range(n) if n < 2000 and n_trunc >= 200 else sorted(set(rng.randrange(n) for _ in range(n_trunc)))
    for o in offs:
        out.append((_b(base[:o]), 'truncate', 'header' if o <= dstart else 'data section'))
    # --- byte noise
    for _ in range(6):
        o = rng.randrange(n)
        ch = rng.choice(['\x00', '\x80', '\xff', '\xe9', '\x1b', '\r'])
        if rng.random() < .5:
            m = base[:o] + ch + base[o:]
        else:
            m = base[:o] + ch + base[o + 1:]
        out.append((_b(m), 'byte noise', 'NUL' if ch == '\x00' else ('high byte' if ord(ch) >= 0x80 else 'control byte')))
    return out


HDR = ("ISO-10303-21;\nHEADER;\nFILE_DESCRIPTION(('a'),'2;1');\nFILE_NAME('n','2020-01-01T00:00:00',('a'),('o'),'p','s','a');\n"
       "FILE_SCHEMA(('%s'));\nENDSEC;\nDATA;\n")
TAIL = "ENDSEC;\nEND-ISO-10303-21;\n"


def p21_shapes(base, schema, pop, thorough=False):
    """Seed-independent pathological files."""
    S = schema.name.upper()
    H = HDR % S
    first = pop.insts[0]
    kw = first.parts[0][0]
    line = gen_p21.join_tokens(gen_p21.inst_tokens(first), 'compact', None)
    out = []

    def add(text, op, construct):
        out.append((_b(text), op, construct))
    add('', 'shape', 'empty file')
    add('\n', 'shape', 'newline only')
    add('ISO-10303-21;', 'shape', 'magic only')
    add('ISO-10303-21;\nHEADER;\n', 'shape', 'header keyword only')
    add(H.split('DATA;')[0], 'shape', 'header only')
    add(H, 'shape', 'no ENDSEC after DATA')
    add(H + TAIL, 'shape', 'empty data section')
    add(H + line + '\n', 'shape', 'missing trailer')
    add(base.replace('HEADER;', '', 1), 'shape', 'missing HEADER keyword')
    add(base.replace('DATA;', 'DATA;\nDATA;', 1), 'shape', 'DATA twice')
    add(base + base, 'shape', 'file twice')
    for n in (63, 64, 65, 200):
        parts = ''.join('P%d(1)' % i for i in range(n))
        add(H + '#1=(%s);\n' % parts + TAIL, 'shape', 'complex instance with %d unknown parts' % n)
        parts = ''.join('%s(1)' % kw for i in range(n))
        add(H + '#1=(%s);\n' % parts + TAIL, 'shape', 'complex instance with %d repeated known parts' % n)
    for d in (100, 1000) + ((10000, 100000) if thorough else ()):
        add(H + '#1=%s(%s1%s);\n' % (kw, '(' * d, ')' * d) + TAIL, 'shape', 'parentheses nested 10^%d' % (len(str(d)) - 1))
        add(H + '#1=%s(%s' % (kw, '(' * d) + '\n' + TAIL, 'shape', 'unclosed parentheses 10^%d' % (len(str(d)) - 1))
        add(H + '#1=(%s1%s);\n' % ('(' * d, ')' * d) + TAIL, 'shape', 'complex head nested 10^%d' % (len(str(d)) - 1))
    for L in (100, 9000, 100000):
        nm = 'E' * L
        add(H + '#1=%s(1);\n' % nm + TAIL, 'shape', 'entity keyword of %d chars' % L)
        add(H + '#1=(%s(1)%s(2));\n' % (nm, kw) + TAIL, 'shape', 'complex part keyword of %d chars' % L)
        add(H + '#1=%s(.%s.);\n' % (kw, 'A' * L) + TAIL, 'shape', 'enumeration item of %d chars as first parameter' % L)
        add(H + '#1=%s(%s);\n' % (kw, '1' * L) + TAIL, 'shape', 'integer of %d digits as first parameter' % L)
        add(H + '#1=%s(%s.5E5);\n' % (kw, '1' * L) + TAIL, 'shape', 'real of %d digits as first parameter' % L)
        add(H + "#1=%s('%s');\n" % (kw, 'a' * L) + TAIL, 'shape', 'string of %d chars as first parameter' % L)
        add(H + '#1=%s("%s");\n' % (kw, 'F' * L) + TAIL, 'shape', 'binary of %d chars as first parameter' % L)
        add(H + '#1=%s(%s(1));\n' % (kw, 'T' * L) + TAIL, 'shape', 'typed parameter keyword of %d chars' % L)
        add(H + '/*' + 'c' * L + '*/\n' + line + '\n' + TAIL, 'shape', 'comment of %d chars' % L)
        add(H + '#%s=%s(1);\n' % ('9' * min(L, 1000), kw) + TAIL, 'shape', 'instance id of %d digits' % min(L, 1000))
        add(H.replace("'n'", "'" + 'n' * L + "'") + line + '\n' + TAIL, 'shape', 'header string of %d chars' % L)
        add(H.replace("('a'),'2;1'", '(' + ','.join(["'a'"] * min(L, 20000)) + "),'2;1'") + line + '\n' + TAIL, 'shape', 'header list of %d items' % min(L, 20000))
    add(H + '#1=&SCOPE #2=%s ENDSCOPE %s;\n' % (line.split('=', 1)[1].rstrip(';') + ';', line.split('=', 1)[1].rstrip(';')) + TAIL, 'shape', '&SCOPE with one inner instance')
    add(H + '#1=&SCOPE #2=%s #3=%s ENDSCOPE /#2,#3/ %s;\n' % ((line.split('=', 1)[1],) * 2 + (line.split('=', 1)[1].rstrip(';'),)) + TAIL, 'shape', '&SCOPE with export list')
    add(H + '#1=&SCOPE ENDSCOPE;\n' + TAIL, 'shape', '&SCOPE empty')
    add(H + '#1=&SCOPE #2=&SCOPE #3=&SCOPE ' + TAIL, 'shape', '&SCOPE nested unterminated')
    add(H + '#1=!USERDEF(1);\n' + line + '\n' + TAIL, 'shape', 'user-defined entity')
    add(H + '#1=%s(#1);\n' % kw + TAIL, 'shape', 'self reference as first parameter')
    add(H + '#0=%s(1);\n#-1=%s(1);\n' % (kw, kw) + TAIL, 'shape', 'instance id 0 and negative')
    add(base.replace('ISO-10303-21;', 'STEP_WORKING_SESSION;', 1), 'shape', 'working-session magic on exchange body')
    return out


ALPHABET = ['(', ')', ',', ';', "'", '"', '.', '$', '*', '#', '1', 'A', '/', '\\', ' ']


def p21_short_params(base, schema, pop, maxlen=2):
    """For each attribute kind (first occurrence in the population) every string of length <= maxlen over the Part 21
    punctuation alphabet substituted for that parameter."""
    from .props import c03
    seen = set()
    out = []
    for inst in pop.insts:
        if inst.complex:
            continue
        kw = inst.parts[0][0].lower()
        for j, (o, a, d) in enumerate(schema.all_attrs(kw)):
            if d:
                continue
            k = c03.kind_of(schema, a.type)
            if k in seen:
                continue
            seen.add(k)
            orig = gen_p21.join_tokens(gen_p21.inst_tokens(inst), 'compact', None)
            for L in range(0, maxlen + 1):
                for tup in itertools.product(ALPHABET, repeat=L):
                    s = ''.join(tup)
                    i2 = copy.deepcopy(inst)
                    i2.parts[0][1][j] = ('raw', s)
                    new = gen_p21.join_tokens(gen_p21.inst_tokens(i2), 'compact', None)
                    out.append((_b(base.replace(orig, new, 1)), 'short parameter string len %d' % L, k + ' attribute'))
    return out


def p21_token_cuts(base, limit=700):
    """Deterministic: the file cut right after EVERY token of the DATA section (end of file in every parser state), and a NUL /
    high byte placed right after every reference, string and closing parenthesis."""
    out = []
    try:
        toks = ref_p21.tokenize(base, keep_comments=True)
    except ref_p21.P21Error:
        return out
    dstart = base.find('DATA;')
    data = [t for t in toks if t[2] > dstart]
    step = max(1, len(data) // limit)
    for t in data[::step]:
        end = t[2] + len(t[1])
        out.append((_b(base[:end]), 'cut after token', _tok_class(t[0], t[1])))
        if t[0] in ('ref', 'str') or t[1] == ')':
            out.append((_b(base[:end]) + b'\x00' + _b(base[end:]), 'NUL after token', _tok_class(t[0], t[1])))
    return out


def _faulty_aggregate_families(schema, pop, f):
    """One aggregate attribute of the population filled with n elements each of which is recoverably wrong for its element type
    (integers without a decimal point in an aggregate of REAL, strings in an aggregate of INTEGER ...): per-element error handling
    must not make the read quadratic."""
    out = []
    seen = set()
    for inst in pop.insts:
        if inst.complex:
            continue
        kw = inst.parts[0][0]
        for j, (owner, a, der) in enumerate(schema.all_attrs(kw.lower())):
            t = a.type
            while t.kind == 'named' and schema.type(t.name).kind == 'simple':
                t = schema.type(t.name).base
            if der or t.kind != 'aggr' or t.elem.kind not in ('REAL', 'INTEGER', 'STRING', 'BOOLEAN') or t.elem.kind in seen:
                continue
            seen.add(t.elem.kind)
            bad = {'REAL': '7', 'INTEGER': "'x'", 'STRING': '7', 'BOOLEAN': '7'}[t.elem.kind]
            good = {'REAL': '7.5', 'INTEGER': '7', 'STRING': "'s'", 'BOOLEAN': '.T.'}[t.elem.kind]
            toks = gen_p21.inst_tokens(inst)

            def body(n, inst=inst, j=j, elem=bad):
                i2 = copy.deepcopy(inst)
                i2.parts[0][1][j] = ('raw', '(' + ','.join([elem] * max(1, n // (len(elem) + 1))) + ')')
                return gen_p21.join_tokens(gen_p21.inst_tokens(i2), 'compact', None)
            out.append(('aggregate of %s with n faulty elements' % t.elem.kind, f(body)))
            out.append(('aggregate of %s with n well-formed elements' % t.elem.kind, f(lambda n, inst=inst, j=j, elem=good: body(n, inst, j, elem))))
    return out


def p21_scaling_families(schema, pop):
    """Families of inputs whose size is a parameter: the CPU time of reading+writing must grow (about) linearly with it.
    -> [(family name, function n -> bytes)]"""
    S = schema.name.upper()
    H = HDR % S
    first = pop.insts[0]
    kw = first.parts[0][0]
    line = gen_p21.join_tokens(gen_p21.inst_tokens(first), 'compact', None)

    def f(body):
        return lambda n: _b(H + body(n) + '\n' + TAIL)
    return [
        ('string of n doubled apostrophes as first parameter', f(lambda n: "#1=%s('%s');" % (kw, "''" * n))),
        ("string of n x it''s as first parameter", f(lambda n: "#1=%s('%s');" % (kw, "it''s " * n))),
        ('string of n plain characters as first parameter', f(lambda n: "#1=%s('%s');" % (kw, 'a' * (2 * n)))),
        ('string of n \\X\\41 escapes as first parameter', f(lambda n: "#1=%s('%s');" % (kw, '\\X\\41' * n))),
        ('header string of n doubled apostrophes', lambda n: _b(H.replace("'n'", "'" + "''" * n + "'") + line + '\n' + TAIL)),
        ('n copies of a conforming instance with increasing ids', f(lambda n: '\n'.join(line.replace('#%d=' % first.id, '#%d=' % (100000 + k), 1) for k in range(max(1, n // 8))))),
        ('comment of n characters before an instance', f(lambda n: '/*' + 'c ' * n + '*/\n' + line)),
        ('aggregate of n integers as first parameter', f(lambda n: '#1=%s((%s));' % (kw, ','.join(['7'] * n)))),
        ('n unknown entity instances', f(lambda n: '\n'.join('#%d=NOSUCH(1);' % (k + 1) for k in range(max(1, n // 8))))),
    ] + _faulty_aggregate_families(schema, pop, f) + [
        ('complex instance with n integer parameters in one part', f(lambda n: '#1=(%s(%s));' % (kw, ','.join(['1'] * n)))),
    ]
