"""C06 runner + oracle: one sanitizer-built EXPRESS tool, one input, one process, one empty scratch directory.

judge() turns a run into a symptom string (None = the property held on this execution):
  sanitizer kind | 'signal n' | 'hang' (H1 step budget A + B*bytes exceeded) | 'exit status out of range' |
  'no diagnostic' (non-zero status without any diagnostic line) | 'timeout' (watchdog only: inconclusive, not a violation)
"""
import os
import re
import shutil
import tempfile

from . import build, run

TOOLS = ('check-express', 'exppp', 'exp2cxx', 'exp2python')

# H1 step bound  steps <= A + B * bytes.  Calibrated on the unchanged tree over the quick corpus (seeds 1,2,3,7,42;
# shipped + generated + mutants + shapes): the largest observed ratio steps/max(bytes,1) was 1.0 (an input made of ';' only:
# one parser step per token, a token is at least one byte; resolve passes add one step per schema); typical schemas 0.06-0.25.
# B = 20 x that maximum; A covers empty / tiny inputs.  The observed maximum of each run is reported in the evidence.
STEP_A = 2000
STEP_B = 20
CALIBRATED_MAX_RATIO = 1.0

# CPU-time limit (RLIMIT_CPU -> SIGXCPU): second net for loops that have no H1 site.  Generous by three orders of magnitude:
# under ASan the tools need 0.01-0.1 s CPU for inputs below 100 kB and 0.5-5 s for the 2 MB shipped schemas (exp2cxx).
CPU_A = 10
CPU_BYTES_PER_S = 10000

MAX_RC = 3          # "small positive": the tools use 1 (errors in input) and 2 (usage / cannot open)

_DIAG = re.compile(r'ERROR|WARNING|[Ee]rror|[Uu]sage|[Ss]yntax|Bailing|[Cc]annot|[Cc]ould not|[Uu]nable|[Ii]nvalid|[Uu]nknown|'
                   r'[Ff]ail|out of space|not (?:found|defined|exist)|[Uu]ndefined|[Ii]llegal|[Nn]o such')

_state = {}

# Address-space randomisation is switched off for the subjects: how a large overflow ends (sanitizer report, the report itself
# dying -> SIGABRT, or SIGSEGV) depends on the memory layout, and a key must not change from run to run.
_NOASLR = ['setarch', os.uname().machine, '-R'] if shutil.which('setarch') else []


def tools_dir():
    if 'b' not in _state:
        _state['b'] = build.core('san')
        e = build.env(_state['b'])
        # fixed minimal environment: the subjects' stack layout (and with it how a large overflow ends) must not depend on
        # whatever the caller happens to have exported
        _state['env'] = dict((k, v) for k, v in e.items() if k in ('LD_LIBRARY_PATH', 'ASAN_OPTIONS', 'UBSAN_OPTIONS', 'PATH', 'LANG', 'LC_ALL'))
    return _state['b']


def _keep_build_fresh(b):
    """build.core() keeps the two most recently used build directories per flavour; while other checks build newer trees
    a long run re-stamps the one it is using so that it is not pruned under it."""
    import time
    now = time.time()
    if now - _state.get('stamp', 0) > 5:
        _state['stamp'] = now
        try:
            os.utime(b, None)
        except OSError:
            pass


def budget_for(nbytes):
    return STEP_A + STEP_B * nbytes


class Case(object):
    """One input presented to one tool.  origin = (operator or shape, construct) -> first key component."""
    __slots__ = ('data', 'tool', 'args', 'op', 'construct', 'cls', 'note', 'name', 'r', 'symptom', 'nfiles', 'path')

    def __init__(self, data, tool, op, construct, args=(), cls='', note='', name='in.exp', path=None):
        self.data = data if isinstance(data, bytes) or data is None else data.encode('utf-8', 'surrogateescape')
        self.tool, self.args, self.op, self.construct, self.cls, self.note, self.name = tool, tuple(args), op, construct, cls, note, name
        self.path = path       # existing file (shipped schemas) instead of data
        self.r = None
        self.symptom = None
        self.nfiles = 0

    def size(self):
        return os.path.getsize(self.path) if self.path else len(self.data or b'')

    def key(self, symptom=None):
        return '%s x %s|%s|%s' % (self.op, self.construct, self.tool, symptom or self.symptom)


def diagnostic_lines(r):
    return [l for l in (r.err + '\n' + r.out).split('\n') if l.strip() and _DIAG.search(l) and not l.startswith('SC_VERIF')]


def judge(r):
    """-> symptom or None."""
    if r.san:
        return r.san
    if r.budget_hit:
        return 'hang'
    if r.timed_out:
        return 'timeout'
    if r.sig == 24:     # SIGXCPU
        return 'hang (cpu limit)'
    if r.sig:
        return 'signal %d' % r.sig
    if r.rc < 0 or r.rc > MAX_RC:
        return 'exit status out of range'
    if r.rc != 0 and not diagnostic_lines(r):
        return 'no diagnostic'
    return None


_FRAME = re.compile(r'#\d+ 0x[0-9a-f]+ in (\S+) (\S+?):(\d+)')
_UBLOC = re.compile(r'(\S+?):(\d+):\d+: runtime error')


def signature(r):
    """Where the run died (function of the first frame inside the repository / location of the UBSan report).
    Only used to keep shrinking and grouping on ONE defect and for the human-readable `what`; never part of a key."""
    if not r.san:
        return ''
    if r.san.startswith('ubsan'):
        m = _UBLOC.search(r.err)
        if m:
            return '%s:%s' % (os.path.basename(m.group(1)), m.group(2))
    for m in _FRAME.finditer(r.err):
        if '/src/' in m.group(2) and 'sanitizer' not in m.group(2) and '/libsanitizer/' not in m.group(2):
            return '%s %s:%s' % (m.group(1), os.path.basename(m.group(2)), m.group(3))
    return ''


def execute(data, tool, args=(), name='in.exp', path=None, timeout=60):
    """Run `tool args <file>` with cwd = fresh empty directory; the input lives in a sibling directory."""
    b = tools_dir()
    _keep_build_fresh(b)
    top = tempfile.mkdtemp(prefix='c06', dir='/dev/shm')
    try:
        wd = os.path.join(top, 'w')
        os.mkdir(wd)
        if path is None:
            os.mkdir(os.path.join(top, 'src'))
            path = os.path.join(top, 'src', name)
            if data is not None:        # data None: the named input file does not exist
                if data.startswith(b'@@MAIN '):
                    # multi-file input: "@@MAIN name@@\n<main text>@@FILE name@@\n<text>..." - the main file is named as a user in
                    # its directory would name it; the other files sit in the working directory, where the tools look for
                    # <schema>.exp of a schema named in USE / REFERENCE FROM
                    head, _, rest = data.partition(b'@@\n')
                    mname = head[len(b'@@MAIN '):].decode()
                    parts = rest.split(b'@@FILE ')
                    data = parts[0]
                    path = os.path.join(wd, mname)
                    for seg in parts[1:]:
                        fname, _, ftext = seg.partition(b'@@\n')
                        with open(os.path.join(wd, fname.decode()), 'wb') as f:
                            f.write(ftext)
                if b'@SELF@' in data:   # INCLUDE shapes name the input file itself
                    data = data.replace(b'@SELF@', path.encode())
                with open(path, 'wb') as f:
                    f.write(data)
            n = len(data or b'')
        else:
            n = os.path.getsize(path)
        r = run.run(_NOASLR + [os.path.join(b, 'bin', tool)] + list(args) + [path], cwd=wd, env=_state['env'], timeout=timeout,
                    budget=budget_for(n), steplog=True, cpu=CPU_A + n // CPU_BYTES_PER_S)
        nfiles = sum(len(fs) for _, _, fs in os.walk(wd))
        return r, nfiles
    finally:
        shutil.rmtree(top, ignore_errors=True)


def warning_names():
    """Warning class names the tools advertise in their usage text (after an unknown option)."""
    b = tools_dir()
    r = run.run([os.path.join(b, 'bin', 'check-express'), '-Z'], cwd='/dev/shm', env=_state['env'], timeout=30)
    names, on = [], False
    for l in (r.err + '\n' + r.out).split('\n'):
        if l.startswith('and <warning> is one of'):
            on = True
        elif on and l.startswith('\t'):
            n = l.strip().split()[0]
            if n not in names:
                names.append(n)
        elif on:
            break
    return names


def run_case(c, timeout=60):
    c.r, c.nfiles = execute(c.data, c.tool, c.args, c.name, c.path, timeout)
    c.symptom = judge(c.r)
    return c


def run_cases(cases, timeout=60, jobs=None):
    """pmap + the watchdog rule: a case whose watchdog fired is re-run once, alone."""
    run.pmap(lambda c: run_case(c, timeout), cases, jobs)
    for c in cases:
        if c.symptom == 'timeout':
            run_case(c, timeout * 2)
    return cases


# ---------------------------------------------------------------------------------------------------------------
# shrinking: delta debugging over lines, then tokens, while the same (tool, symptom) persists

def _ddmin(units, test, max_tests):
    """ddmin; at each granularity all subsets and complements are tried in one parallel batch, and all chunks whose
    removal passed individually are then removed together (or one after the other when together they do not pass)."""
    n = 2
    tests = 0
    while len(units) >= 2 and tests < max_tests:
        chunk = max(1, (len(units) + n - 1) // n)
        subsets = [units[i:i + chunk] for i in range(0, len(units), chunk)]
        if len(subsets) < 2:
            break
        compl = [sum(subsets[:i] + subsets[i + 1:], []) for i in range(len(subsets))]
        if len(subsets) > 2:
            subsets_t = []
        else:
            subsets_t, compl = subsets, []
        cands = subsets_t + compl
        res = run.pmap(test, cands)
        tests += len(cands)
        good_sub = [c for c, ok in zip(subsets_t, res[:len(subsets_t)]) if ok]
        if good_sub:
            units = min(good_sub, key=len)
            n = 2
            continue
        removable = [i for i, ok in enumerate(res[len(subsets_t):]) if ok]
        if removable:
            allgone = sum((sb for i, sb in enumerate(subsets) if i not in set(removable)), [])
            tests += 1
            if len(removable) > 1 and allgone and test(allgone):
                units = allgone
            else:
                gone = {removable[0]}
                for i in removable[1:]:
                    cnd = sum((sb for k, sb in enumerate(subsets) if k not in gone and k != i), [])
                    tests += 1
                    if cnd and test(cnd):
                        gone.add(i)
                units = sum((sb for k, sb in enumerate(subsets) if k not in gone), [])
            n = max(2, min(len(units), n - len(removable)))
            if chunk == 1:
                n = len(units)
                # one more sweep at granularity 1 only if something was removed; loop continues
            continue
        if chunk == 1:
            break
        n = min(len(units), n * 2)
    return units


_BLOCK_END = re.compile(rb'^\s*END_(?:ENTITY|TYPE|FUNCTION|PROCEDURE|RULE|SCHEMA|CONSTANT)\b', re.I)


def _blocks(data):
    out, cur = [], []
    for ln in data.split(b'\n'):
        cur.append(ln)
        if _BLOCK_END.match(ln):
            out.append(b'\n'.join(cur))
            cur = []
    if cur:
        out.append(b'\n'.join(cur))
    return out


def shrink(c, max_tests=24000):
    """-> (shrunk bytes, number of runs).  The witness keeps tool, args and symptom."""
    from . import c06_gen
    if c.data is None:
        with open(c.path, 'rb') as f:
            data = f.read()
    else:
        data = c.data
    want = (c.symptom, signature(c.r))
    count = [0]

    def still(bs):
        count[0] += 1
        r, _ = execute(bs, c.tool, c.args, c.name)
        return (judge(r), signature(r)) == want

    def test_join(sep):
        return lambda units: still(sep.join(units))
    if len(data) > 200000:
        return data, 0
    blocks = _blocks(data)
    if len(blocks) > 2:
        data = b'\n'.join(_ddmin(blocks, test_join(b'\n'), max_tests // 3))
    lines = data.split(b'\n')
    if len(lines) > 1:
        lines = _ddmin(lines, test_join(b'\n'), max_tests // 2)
        data = b'\n'.join(lines)
    try:
        text = data.decode('latin-1')
        toks = [lx for _, lx in c06_gen.tokenize(text)]
        if 1 < len(toks) <= 4000:
            toks = _ddmin(toks, lambda u: still(''.join(u).encode('latin-1')), max_tests // 2)
            data = ''.join(toks).encode('latin-1')
    except Exception:
        pass
    return data, count[0]
