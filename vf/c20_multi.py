"""C20 helper: inputs made of SEVERAL files.

A main schema USEs / REFERENCEs two or three schemas that live in their own files `<schema>.exp`, which the front end
finds through its schema search path (directories of EXPRESS_PATH, or the working directory when the variable is not
set).  run_files() lays the files out in a scratch tree
    top/w    working directory          top/src   directory of the main file when it is not given as a bare name
    top/p1, top/p2   search path directories
runs the tool and tells for every diagnostic which of the written files its `file:` prefix denotes (by resolving the
printed name against the working directory) - so the oracle can compare the FILE and the line of every diagnostic with
the file that really holds the fault, whatever spelling the tool prints.

models(): valid multi-file models (main + 2 or 3 library schemas with every kind of interface clause, chained imports)
built from the enriched schemas of vf/c04_faults.py; faults(): single-fault mutants of them, the fault placed in each
file in turn, for every fault class of the lexical, syntax and resolution phases; LAYOUTS: where the library files sit
and how the search path names the directories.
"""
import copy
import os
import random
import re
import shutil
import tempfile

from . import c04_faults as F
from . import c04_run as R
from . import build, run
from . import gen_schema
from . import model as M

# ------------------------------------------------------------------------------------------------ layouts
# (id, EXPRESS_PATH entries or None, directory key of library file k (cycled), how the main file is given, shadow?)
#   entry spellings: 'abs:p1' absolute, 'rel:p1' ../p1, 'rel/:p1' ../p1/ (trailing slash), 'abs/:p1', '.' working directory
LAYOUTS = [
    ('working directory, EXPRESS_PATH unset, main as bare name', None, ['w'], 'cwd', False),
    ('working directory, EXPRESS_PATH unset, main elsewhere', None, ['w'], 'abs', False),
    ('one path directory (absolute)', ['abs:p1'], ['p1'], 'abs', False),
    ('one path directory (relative, trailing slash)', ['rel/:p1'], ['p1'], 'rel', False),
    ('two path directories, files alternate', ['abs:p1', 'abs:p2'], ['p1', 'p2'], 'abs', False),
    ('two path directories, all files in the second', ['rel:p1', 'abs/:p2'], ['p2'], 'cwd', False),
    ('path directory, then working directory', ['abs:p1', '.'], ['p1', 'w'], 'rel', False),
    ('working directory, then path directory', ['.', 'rel:p2'], ['w', 'p2', 'p2'], 'abs', False),
    ('two path directories, the second holds unused files of the same names', ['abs:p1', 'abs:p2'], ['p1'], 'abs', True),
    ('main file itself found through the path (bare name, not in the working directory)', ['rel:p2', 'abs:p1'], ['p1', 'p2'], 'path', False),
]


def path_entry(spec, top):
    if spec == '.':
        return '.'
    kind, d = spec.split(':')
    p = os.path.join(top, d) if kind.startswith('abs') else os.path.join('..', d)
    return p + ('/' if kind.endswith('/') else '')


class MultiRun(object):
    """ToolRun + for every diagnostic the logical name of the file its prefix denotes (None: no such file was written)."""

    def __init__(self, tr, top, real, express_path):
        self.tr, self.top, self.real, self.express_path = tr, top, real, express_path
        self.wd = os.path.join(top, 'w')

    def logical_path(self, p):
        """logical name of the written file that the printed path p denotes (relative paths: to the working directory)"""
        if p is None:
            return None
        return self.real.get(os.path.normpath(os.path.join(self.wd, p)))

    def logical(self, d):
        return self.logical_path(d.file)

    def strip(self, text):
        return text.replace(self.top, '<top>')


def run_files(tool, files, main, how='abs', path=None, args=(), timeout=60):
    """files: {logical name: (directory key, file name, text)}; main: logical name of the file handed to the tool (its
    directory key is ignored: `how` decides - 'cwd' bare name in the working directory, 'abs' / 'rel' in top/src, 'path'
    bare name of a file that lies in top/p1, which the search path must name).
    path: list of EXPRESS_PATH entry specs or None (variable unset).  -> MultiRun"""
    b = R.tools_dir()
    top = tempfile.mkdtemp(prefix='c20m', dir='/dev/shm')
    try:
        for d in ('w', 'src', 'p1', 'p2'):
            os.mkdir(os.path.join(top, d))
        real = {}
        for lname, (dkey, fname, text) in files.items():
            if lname == main:
                dkey = {'cwd': 'w', 'path': 'p1'}.get(how, 'src')
            p = os.path.join(top, dkey, fname)
            with open(p, 'wb') as f:
                f.write(text if isinstance(text, bytes) else text.encode('utf-8'))
            real[os.path.normpath(p)] = lname
        mfile = files[main][1]
        given = mfile if how in ('cwd', 'path') else (os.path.join(top, 'src', mfile) if how == 'abs' else os.path.join('..', 'src', mfile))
        env = build.env(b)
        env.pop('EXPRESS_PATH', None)
        ep = None
        if path is not None:
            ep = ' '.join(path_entry(s, top) for s in path)
            env['EXPRESS_PATH'] = ep
        wd = os.path.join(top, 'w')
        r = run.run([os.path.join(b, 'bin', tool)] + list(args) + [given], cwd=wd, env=env, timeout=timeout)
        tr = R.ToolRun(tool, r, [], given)
        return MultiRun(tr, top, real, ep.replace(top, '<top>') if ep is not None else None)
    finally:
        shutil.rmtree(top, ignore_errors=True)


# ------------------------------------------------------------------------------------------------ valid multi-file models
LIB_KINDS = ['use items', 'use items + reference items', 'reference items', 'use all', 'reference all', 'chained']


def model(seed, i):
    """main schema (prefix a_) + 2 or 3 library schemas (b_, c_, d_), every library imported by a different kind of
    clause; -> c04_faults.File whose schemas are later written to one file each.  Valid by construction."""
    rng = random.Random('c20mf/%d/%d' % (seed, i))
    nlibs = 2 if i % 4 == 3 else 3
    rss = []
    for j in range(nlibs + 1):
        P = 'abcd'[j] + '_'
        m = F._one_per_line(gen_schema.Gen(random.Random('c20mf/%d/%d/%d' % (seed, i, j))).schema('mf%d_%d%s' % (seed, i, 'abcd'[j]), n_entities=rng.randint(3, 4)))
        F.prefix_model(m, P)
        rss.append(F.enrich(m, random.Random('c20mfe/%d/%d/%d' % (seed, i, j)), P))
    a = rss[0]
    ne = M.Entity('a_x1')
    kinds = []
    for j in range(1, nlibs + 1):
        L = rss[j]
        P = L.P
        kind = LIB_KINDS[(i + 2 * j) % 5]
        if j == nlibs and i % 2 == 1:
            kind = 'chained'
        kinds.append(kind)
        ent = rng.choice(L.m.entities).name
        others = [e.name for e in L.m.entities if e.name != ent]
        lbl, func = P + 'label', False
        if kind == 'use items':
            a.iface.append('USE FROM %s (%s, %slabel AS a_lbl_%s);' % (L.m.name, ent, P, P[0]))
            lbl = 'a_lbl_' + P[0]
        elif kind == 'use items + reference items':
            a.iface.append('USE FROM %s (%s, %slabel);' % (L.m.name, ent, P))
            a.iface.append('REFERENCE FROM %s (%sf_add, %sk_lim, %s AS a_ref_%s);' % (L.m.name, P, P, others[0], P[0]))
            ne.attrs.append(M.Attr('a_x1_%sq' % P, M.AGG('SET', M.ENT('a_ref_' + P[0]), 0, None)))
            func = True
        elif kind == 'reference items':
            a.iface.append('REFERENCE FROM %s (%s AS a_ref_%s, %slabel, %sf_add, %sk_lim);' % (L.m.name, ent, P[0], P, P, P))
            ent = 'a_ref_' + P[0]
            func = True
        elif kind == 'use all':
            a.iface.append('USE FROM %s;' % L.m.name)
        elif kind == 'reference all':
            a.iface.append('REFERENCE FROM %s;' % L.m.name)
            func = True
        else:       # the main schema does not name this library: the previous library does
            prev = rss[j - 1]
            prev.iface.append('USE FROM %s (%s);' % (L.m.name, ent))
            prev.m.entities.append(M.Entity(prev.P + 'y1', attrs=[M.Attr(prev.P + 'y1_c', M.ENT(ent))]))
            continue
        ne.attrs.append(M.Attr('a_x1_%sl' % P, M.NAMED(lbl)))
        ne.attrs.append(M.Attr('a_x1_%sr' % P, M.ENT(ent), optional=True))
        if func:
            ne.derived.append(M.Derived('a_x1_%sd' % P, M.INT(), '%sf_add(%sk_lim, 1)' % (P, P)))
    a.m.entities.append(ne)
    f = F.File(rss, tags=['multi-file', 'libs=%d' % nlibs] + ['clause:' + k for k in kinds])
    f.kinds = kinds
    return f


# ------------------------------------------------------------------------------------------------ faults, file by file
LEXICAL = ['illegal_char', 'underscore_ident', 'bad_hex_digit', 'bad_hex_count', 'unterminated_string']
SYNTAX = ['drop_semicolon', 'drop_end_entity', 'stray_keyword']
RESOLVE = ['undef_type', 'undef_supertype', 'undef_subtype', 'undef_function', 'undef_procedure', 'undef_attr_ref', 'undef_schema_use', 'undef_schema_ref',
           'undef_item_use', 'undef_item_ref', 'dup_entity', 'dup_type', 'dup_type_entity', 'dup_attribute', 'dup_function', 'dup_constant',
           'subtype_cycle', 'select_cycle', 'missing_supertype', 'inherited_attr', 'inverse_missing_attr', 'inverse_non_entity', 'wrong_arg_count']
PHASE = dict([(c, 'lexical') for c in LEXICAL] + [(c, 'syntax') for c in SYNTAX] + [(c, 'resolution') for c in RESOLVE])
PHASE['dup_schema_other_file'] = 'resolution'
PHASE['schema_not_in_own_file'] = 'resolution'
EXTRA = ['dup_schema_other_file', 'schema_not_in_own_file']


class MFault(object):
    """A single-fault multi-file input; quacks like c04_faults.Mutant with line numbers LOCAL to the faulty file."""

    def __init__(self, base, m, texts, k, off, layout):
        """texts: text of file 0..n (0 = main); k: index of the faulty file; off: number of lines of the one-file
        rendering before chunk k"""
        self.base, self.plain, self.k = base, m, k
        self.cid, self.cls, self.variant, self.lexeme, self.ctx = m.cid, 'multi-file input: ' + m.cls, m.variant, m.lexeme, m.ctx
        self.texts = texts
        nl = texts[k].count('\n')

        def loc(x):
            if x is None:
                return None
            x -= off
            return x if 1 <= x <= nl else nl + 1          # the next token after the last line of a file is its end
        self.line, self.decl_line, self.first_line = loc(m.line), loc(m.decl_line), loc(m.first_line)
        self.lines_ok = set(loc(x) for x in m.lines_ok) if m.lines_ok else m.lines_ok
        self.layout = layout
        self.text = texts[k]
        self.fault_file = lname(base, k)
        self.position = 'main file' if k == 0 else 'library file %d of %d' % (k, len(texts) - 1)

    def files(self):
        lay = self.layout
        out = {}
        for j, t in enumerate(self.texts):
            ln = lname(self.base, j)
            out[ln] = ('src', 'main.exp', t) if j == 0 else (lay[2][(j - 1) % len(lay[2])], ln, t)
        if lay[4]:      # unused files of the same names (fault-free, other content) in the last path directory
            for j in range(1, len(self.texts)):
                ln = lname(self.base, j)
                out['unused copy of ' + ln] = ('p2', ln, 'SCHEMA %s;\nENTITY zz_unused_%d;\n  zz_u : INTEGER;\nEND_ENTITY;\nEND_SCHEMA;\n' % (self.base.schemas[j].m.name, j))
        return out

    def describe(self):
        d = self.plain.describe()
        d.update(cls=self.cls, line=self.line, decl_line=self.decl_line, first_line=self.first_line, fault_file=self.fault_file, position=self.position,
                 layout=self.layout[0], clauses=getattr(self.base, 'kinds', None))
        return d


def lname(f, j):
    return 'main.exp' if j == 0 else f.schemas[j].m.name.lower() + '.exp'


def split(text):
    """one-file rendering -> ([text of each schema], [number of lines before each chunk])"""
    lines = text.split('\n')
    assert lines[-1] == ''
    lines = lines[:-1]
    chunks, offs, cur, start = [], [], [], 0
    for i, l in enumerate(lines):
        if l == '':
            chunks.append(cur)
            offs.append(start)
            cur, start = [], i + 1
        else:
            cur.append(l)
    chunks.append(cur)
    offs.append(start)
    return ['\n'.join(c) + '\n' for c in chunks], offs


class FocusFile(F.File):
    """View of a multi-schema File that shows the injector ONE schema to choose its site in (model-level fault classes pick
    their site among `schemas`), while the text is still that of all schemas."""

    def __init__(self, f, k):
        self.all, self.k, self.tags, self.name = (f.all if isinstance(f, FocusFile) else f.schemas), k, f.tags, f.name

    @property
    def schemas(self):
        return [self.all[self.k]]

    def __deepcopy__(self, memo):
        g = FocusFile(self, self.k)          # the injector edits only the schema it is shown: the others are shared
        g.all = list(self.all)
        g.all[self.k] = copy.deepcopy(self.all[self.k], memo)
        return g

    def lines(self):
        o = []
        for i, s in enumerate(self.all):
            if i:
                o.append('')
            o += s.lines()
        return o


def valid_input(f, layout):
    texts, _offs = split(f.text())
    m = F.Mutant('no fault', '', f.text(), None, 1)
    m.cid = 'valid'
    mf = MFault(f, m, texts, 0, 0, layout)
    return mf


def faults(f, seed, layout, classes):
    """For every class and every file of model f one mutant whose fault lies in that file (found by drawing mutants of
    the one-file rendering until the fault falls into the wanted schema).  -> [MFault]"""
    out = []
    n = len(f.schemas)
    for cid in classes:
        if cid == 'dup_schema_other_file':
            out += dup_schema_faults(f, layout)
            continue
        if cid == 'schema_not_in_own_file':
            out += wrong_schema_name_faults(f, layout)
            continue
        _id, meth, args, _multi_only = F.CLASSES[F.CLASS_IDS.index(cid)]
        got = {}
        for k in range(n):
            focus = FocusFile(f, k)
            nones = 0
            for t in range(24):
                if nones >= 5:
                    break                 # no site for this class in this schema
                rng = random.Random('c20mff/%d/%s/%s/%d/%d' % (seed, f.name, cid, k, t))
                inj = F.Injector(focus, rng, fresh_no=rng.randint(1, 999))
                m = getattr(inj, meth)(*args)
                if m is None or isinstance(m.text, bytes):
                    nones += 1
                    continue
                texts, offs = split(m.text)
                if len(texts) != n:
                    continue
                kk = max(j for j in range(n) if offs[j] < m.line)
                # both declarations of a duplicate (and every other recorded line) belong to the same schema
                rel = [x for x in (m.decl_line, m.first_line) if x is not None]
                if kk != k or any(not (offs[k] < x <= offs[k] + texts[k].count('\n')) for x in rel):
                    continue
                m.cid, m.base = cid, f
                got[k] = MFault(f, m, texts, k, offs[k], layout)
                break
        out += [got[k] for k in sorted(got)]
    return out


def dup_schema_faults(f, layout):
    """A library file that also declares a schema named like the MAIN schema (which is always read first): the
    redeclaration is in the library file, the previous declaration in the main file."""
    out = []
    texts, _offs = split(f.text())
    main_name = f.schemas[0].m.name
    for k in range(1, len(texts)):
        for where in ('after', 'before'):
            extra = 'SCHEMA %s;\nENTITY zz_again_%d;\n  zz_g : INTEGER;\nEND_ENTITY;\nEND_SCHEMA;\n' % (main_name, k)
            t2 = list(texts)
            if where == 'after':
                line = texts[k].count('\n') + 1
                t2[k] = texts[k] + extra
            else:
                line = 1
                t2[k] = extra + texts[k]
            m = F.Mutant('schema declared again in another file', 'second declaration %s the schema of the library file' % where, t2[k], main_name, line, line,
                         first_line=1, ctx=dict(first_file='main.exp'))
            m.cid, m.base = 'dup_schema_other_file', f
            mf = MFault(f, m, t2, k, 0, layout)
            out.append(mf)
    return out


def wrong_schema_name_faults(f, layout):
    """The file <schema>.exp exists but declares a schema of another name: the front end must say that <schema> was not
    found in (exactly) that file."""
    out = []
    texts, _offs = split(f.text())
    for k in range(1, len(texts)):
        name = f.schemas[k].m.name
        head = 'SCHEMA %s;\n' % name
        assert texts[k].startswith(head)
        t2 = list(texts)
        t2[k] = 'SCHEMA zz_other_%d;\n' % k + texts[k][len(head):]
        m = F.Mutant('schema file declares another schema', 'library file %d' % k, t2[k], name, 1, 1, ctx=dict(own_file=lname(f, k)))
        m.cid, m.base = 'schema_not_in_own_file', f
        out.append(MFault(f, m, t2, k, 0, layout))
    return out


def two_file_pairs(fs, seed, per_model=6):
    """Two single-fault inputs of ONE model whose faults lie in two DIFFERENT files, merged into one input with two
    faults of the same phase (lexical / lexical or resolution / resolution, see c20_lex.PAIR_*).  -> [(a, b, merged)]"""
    from . import c20_lex as L
    rng = random.Random('c20mfp/%d' % seed)
    out = []
    by = {}
    for mf in fs:
        by.setdefault(mf.base.name, []).append(mf)
    for name in sorted(by):
        for phase, ids in (('first pass', L.PAIR_LEX), ('resolution', L.PAIR_RES)):
            pool = [mf for mf in by[name] if mf.cid in ids]
            done = 0
            for _t in range(40):
                if done >= per_model // 2 or len(pool) < 2:
                    break
                a, b = rng.sample(pool, 2)
                # a fault of the first pass in the main file ends the run before any library file is looked for
                if a.k == b.k or (phase == 'first pass' and 0 in (a.k, b.k)):
                    continue
                texts = list(a.texts)
                texts[b.k] = b.texts[b.k]
                m = F.Mutant('two faults in two files (%s)' % phase, '', texts[a.k], (a.lexeme, b.lexeme), a.line)
                m.cid, m.base = 'two_files', a.base
                merged = MFault(a.base, m, texts, a.k, 0, a.layout)
                merged.phase = phase
                out.append((a, b, merged))
                done += 1
    return out


# ------------------------------------------------------------------------------------------------ warnings in a library file
class WarnInput(MFault):
    """Valid multi-file model; file k additionally holds declarations that only draw WARNINGs (when switched on)."""


def warn_inputs(f, layout):
    from . import c20_lex as L
    out = []
    texts, _offs = split(f.text())
    for k in range(len(texts)):
        lines = texts[k].split('\n')[:-1]
        const, decls = L.warn_decls('zw%d_' % k)
        iec = [i for i, l in enumerate(lines) if l.startswith('END_CONSTANT')]
        ies = [i for i, l in enumerate(lines) if l.startswith('END_SCHEMA')]
        if not iec or not ies:
            continue
        new = lines[:iec[-1]] + [const] + lines[iec[-1]:ies[-1]] + decls + lines[ies[-1]:]
        t2 = list(texts)
        t2[k] = '\n'.join(new) + '\n'
        warn_lines = set([iec[-1] + 1]) | set(range(ies[-1] + 2, ies[-1] + 2 + len(decls)))
        m = F.Mutant('warnings of several classes', 'warning-only declarations', t2[k], None, iec[-1] + 1, ctx=dict(warn_lines=warn_lines))
        m.cid, m.base = 'warn_in_file', f
        w = WarnInput(f, m, t2, k, 0, layout)
        w.warn_lines = warn_lines
        out.append(w)
    return out
