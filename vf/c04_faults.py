"""Valid EXPRESS files (single- and multi-schema) and classified single-fault mutants of them (C04, C20).

A valid file is built from the data-schema model of vf/gen_schema.py (types, entities) enriched here with what the
fault classes need something to break: constants, functions, procedures, rules, WHERE/DERIVE/UNIQUE clauses that
call them, and - for multi-schema files - USE FROM / REFERENCE FROM clauses with and without renames whose items are
really used.  Everything is printed one declaration element per line, so a lexeme has one line.

A mutant is produced only when it is invalid EXPRESS *by construction*:
  * undefined-reference classes rename ONE reference to a fresh identifier that occurs nowhere else in the file;
  * duplicate classes insert a second declaration of an existing name into the same scope (nothing else is renamed);
  * cycle / missing-supertype / inherited-attribute / INVERSE classes edit the model so that the rule of ISO 10303-11
    is broken by exactly that edit;
  * token-level classes drop a mandatory `;` or `END_ENTITY;`, insert a reserved word where a type is required, or
    insert a character / literal that is no EXPRESS token.
Each mutant records class, variant, the offending lexeme, its 1-based line, the line of the enclosing declaration,
for duplicates the line of the first declaration, and the names a diagnostic may legitimately quote (ctx).
"""
import copy
import random
import re

from . import gen_schema
from . import model as M

FRESH = 'zz_nodef_%d'

KEYWORDS_NOT_A_TYPE = ['ENTITY', 'END_ENTITY', 'TYPE', 'WHERE', 'DERIVE', 'FUNCTION', 'RULE', 'SCHEMA', 'IF', 'THEN', 'FOR', 'OF']
ILLEGAL_CHARS = ['$', '&', '^', '~', '@']          # scanner rule <code>[$%&@\^{}~]; % { } have other token readings
UNRECOGNISED_CHARS = ['#', '!', '`']               # no EXPRESS token starts with them outside strings and remarks


# ------------------------------------------------------------------------------------------------ valid files
class Block(object):
    """A FUNCTION / PROCEDURE / RULE declaration kept as lines."""

    def __init__(self, kind, name, lines):
        self.kind, self.name, self.lines = kind, name, lines


class RS(object):
    """Rich schema: data model + interface clauses + constants + algorithm blocks."""

    def __init__(self, m, P=''):
        self.m, self.P = m, P
        self.iface = []        # text lines 'USE FROM x (a, b AS c);'
        self.consts = []       # [name, type text, expr text]
        self.blocks = []
        self.calls = {}        # facts for mutators: entity used by f_has, attribute it reads, ...

    def lines(self):
        o = ['SCHEMA %s;' % self.m.name]
        o += self.iface
        if self.consts:
            o.append('CONSTANT')
            o += ['  %s : %s := %s;' % tuple(c) for c in self.consts]
            o.append('END_CONSTANT;')
        for t in self.m.types:
            o += t.text().split('\n')
        for e in self.m.entities:
            o += e.text().split('\n')
        for b in self.blocks:
            o += b.lines
        o.append('END_SCHEMA;')
        return o


class File(object):
    def __init__(self, schemas, tags=()):
        self.schemas = schemas
        self.tags = set(tags)
        self.name = schemas[0].m.name

    def lines(self):
        o = []
        for i, s in enumerate(self.schemas):
            if i:
                o.append('')
            o += s.lines()
        return o

    def text(self):
        return '\n'.join(self.lines()) + '\n'


def _map_T(t, f):
    if t is None:
        return
    if t.kind in ('named', 'entity'):
        t.name = f(t.name)
    if t.elem is not None:
        _map_T(t.elem, f)


def _map_sexpr(e, f):
    if e is None:
        return None
    if e[0] == 'leaf':
        return ('leaf', f(e[1]))
    if e[0] == 'oneof':
        return ('oneof', [_map_sexpr(x, f) for x in e[1]])
    return (e[0], _map_sexpr(e[1], f), _map_sexpr(e[2], f))


def prefix_model(s, P):
    """Rename every identifier the data model declares (types, enumeration items, entities, attributes)."""
    f = lambda n: P + n
    for t in s.types:
        t.name = f(t.name)
        _map_T(t.base, f)
        t.items = [f(i) for i in t.items]
        t.members = [f(x) for x in t.members]
    for e in s.entities:
        e.name = f(e.name)
        e.supers = [f(x) for x in e.supers]
        e.sexpr = _map_sexpr(e.sexpr, f)
        for a in e.attrs:
            a.name = f(a.name)
            _map_T(a.type, f)
        for d in e.derived:
            d.name = f(d.name)
            _map_T(d.type, f)
            if d.redeclares:
                d.redeclares = (f(d.redeclares[0]), f(d.redeclares[1]))
        for i in e.inverse:
            i.name, i.entity, i.attr = f(i.name), f(i.entity), f(i.attr)
        e.unique = [(lab, [f(n) for n in names]) for lab, names in e.unique]
    return s


def _simple_attr(e):
    return [a for a in e.attrs if a.type.kind in ('INTEGER', 'REAL', 'STRING', 'BOOLEAN') and not a.optional]


def enrich(m, rng, P=''):
    """Add constants / functions / a procedure / a rule and clauses that use them.  -> RS (valid by construction)."""
    r = RS(m, P)
    n = lambda x: P + x
    ents = m.entities
    with_attr = [e for e in ents if e.attrs]
    E = rng.choice(with_attr)
    A = rng.choice(E.attrs)
    E2 = rng.choice(ents)
    r.calls = dict(has_entity=E.name, has_attr=A.name, rule_entities=[E.name, E2.name])
    r.consts = [[n('k_lim'), 'INTEGER', '10'],
                [n('k_txt'), n('label'), "'abc'"],
                [n('k_sum'), 'INTEGER', '%s(%s, 2)' % (n('f_add'), n('k_lim'))]]
    if rng.random() < .5:
        r.consts.append([n('k_enc'), 'STRING', '"%s"' % ''.join(rng.choice('0123456789ABCDEF') for _ in range(8 * rng.randint(1, 2)))])
    r.blocks.append(Block('FUNCTION', n('f_add'), [
        'FUNCTION %s(p, q : INTEGER) : INTEGER;' % n('f_add'),
        'LOCAL',
        '  t : INTEGER := 0;',
        'END_LOCAL;',
        '  t := p + q;',
        '  %s(t);' % n('p_bump'),
        '  RETURN (t);',
        'END_FUNCTION;']))
    r.blocks.append(Block('FUNCTION', n('f_has'), [
        'FUNCTION %s(v : %s) : BOOLEAN;' % (n('f_has'), E.name),
        '  IF NOT EXISTS(v.%s) THEN' % A.name,
        '    RETURN (FALSE);',
        '  END_IF;',
        '  RETURN (%s(1, %s) > 0);' % (n('f_add'), n('k_lim')),
        'END_FUNCTION;']))
    r.blocks.append(Block('PROCEDURE', n('p_bump'), [
        'PROCEDURE %s(VAR i : INTEGER);' % n('p_bump'),
        '  i := i + 1;',
        'END_PROCEDURE;']))
    forl = E.name if E2.name == E.name else '%s, %s' % (E.name, E2.name)
    r.blocks.append(Block('RULE', n('r_pop'), [
        'RULE %s FOR (%s);' % (n('r_pop'), forl),
        'LOCAL',
        '  n : INTEGER := 0;',
        'END_LOCAL;',
        '  n := SIZEOF(%s) + SIZEOF(%s);' % (E.name, E2.name),
        '  %s(n);' % n('p_bump'),
        'WHERE',
        '  wr1 : n >= 0;',
        '  wr2 : SIZEOF(QUERY(t <* %s | NOT %s(t))) = 0;' % (E.name, n('f_has')),
        'END_RULE;']))
    # clauses on entities
    E.where.append('w_has : %s(SELF)' % n('f_has'))
    for d in m.descendants(E.name)[:2]:
        if rng.random() < .7:
            m.entity(d).where.append('w_sup : EXISTS(SELF\\%s.%s)' % (E.name, A.name))
    for e in ents:
        if rng.random() < .35 and not any(x.name == e.name + '_dv' for x in e.derived):
            e.derived.append(M.Derived(e.name + '_dv', M.INT(), '%s(%s, 1)' % (n('f_add'), n('k_lim'))))
        sa = _simple_attr(e)
        if sa and rng.random() < .35:
            e.unique.append(('u_%s' % e.name, [rng.choice(sa).name]))
    return r


def _one_per_line(m):
    """The mutators are line based (one declaration element per line, see module text): attributes the generator would print
    merged into one clause (`a, b : T;`, vf/gen_schema.py feature merged_attr_decls) are printed one per clause here."""
    for e in m.entities:
        e.merge_decls = False
    return m


def single(seed, i):
    rng = random.Random('c04v/%d/%d' % (seed, i))
    m = _one_per_line(gen_schema.Gen(random.Random('v/%d/%d' % (seed, i))).schema('v%d_%d' % (seed, i)))
    return File([enrich(m, rng)], tags=['single'] + sorted(m.tags - {'merged_attr_decls'}))


def multi(seed, i):
    """Two or three schemas in one file; the first one imports from the others by USE and REFERENCE and uses the imports."""
    rng = random.Random('c04m/%d/%d' % (seed, i))
    k = rng.choice([2, 3])
    rss = []
    for j in range(k):
        P = 'abc'[j] + '_'
        m = _one_per_line(gen_schema.Gen(random.Random('c04m/%d/%d/%d' % (seed, i, j))).schema('m%d_%d%s' % (seed, i, 'abc'[j]), n_entities=rng.randint(3, 5)))
        prefix_model(m, P)
        rss.append(enrich(m, random.Random('c04me/%d/%d/%d' % (seed, i, j)), P))
    a, b = rss[0], rss[1]
    tags = {'multi', 'schemas=%d' % k}
    bent = rng.choice(b.m.entities).name
    bent2 = rng.choice(b.m.entities).name
    use_items = [bent]
    ren = rng.random() < .6
    if ren:
        use_items.append('b_label AS a_lbl_b')
        tags.add('use rename')
    else:
        use_items.append('b_label')
    a.iface.append('USE FROM %s (%s);' % (b.m.name, ', '.join(use_items)))
    refs = ['b_f_add', 'b_k_lim']
    if bent2 != bent:
        refs.append('%s AS a_ref_b' % bent2)
        tags.add('reference rename')
    a.iface.append('REFERENCE FROM %s (%s);' % (b.m.name, ', '.join(refs)))
    lblname = 'a_lbl_b' if ren else 'b_label'
    ne = M.Entity('a_x1', supers=[bent] if rng.random() < .6 else [],
                  attrs=[M.Attr('a_x1_l', M.NAMED(lblname)), M.Attr('a_x1_r', M.ENT(bent), optional=True)],
                  derived=[M.Derived('a_x1_d', M.INT(), 'b_f_add(b_k_lim, 1)')])
    if bent2 != bent:
        ne.attrs.append(M.Attr('a_x1_q', M.AGG('SET', M.ENT('a_ref_b'), 0, None)))
    if ne.supers:
        tags.add('subtype of imported entity')
    a.m.entities.append(ne)
    if k == 3:
        c = rss[2]
        a.iface.append('REFERENCE FROM %s;' % c.m.name)
        tags.add('reference whole schema')
        cent = rng.choice(c.m.entities).name
        ne.attrs.append(M.Attr('a_x1_c', M.ENT(cent), optional=True))
        ne.derived.append(M.Derived('a_x1_e', M.INT(), 'c_f_add(2, c_k_lim)'))
        if rng.random() < .5:
            b.iface.append('USE FROM %s (%s);' % (c.m.name, cent))
            b.m.entities.append(M.Entity('b_y1', attrs=[M.Attr('b_y1_c', M.ENT(cent))]))
            tags.add('chained use')
    a.calls['imports'] = dict(use_schema=b.m.name, items=[bent, 'b_label', 'b_f_add', 'b_k_lim'])
    return File(rss, tags=sorted(tags))


def valid_corpus(seed, n, n_multi):
    """n valid files of which n_multi are multi-schema."""
    out = []
    for i in range(n):
        out.append(multi(seed, i) if i < n_multi else single(seed, i))
    return out


# ------------------------------------------------------------------------------------------------ mutants
def _safe_ancestors(m, n):
    """ancestors within this schema model (supertypes imported from another schema are ignored)"""
    out, todo = set(), [n]
    while todo:
        x = todo.pop()
        if not m.has_entity(x):
            continue
        for sup in m.entity(x).supers:
            if sup not in out:
                out.add(sup)
                todo.append(sup)
    return out


class Mutant(object):
    def __init__(self, cls, variant, text, lexeme, line, decl_line=None, first_line=None, ctx=None, c04=True, lines_ok=None):
        self.cls, self.variant, self.text, self.lexeme = cls, variant, text, lexeme
        self.line = line                  # 1-based line of the offending lexeme
        self.decl_line = decl_line        # 1-based first line of the enclosing declaration
        self.first_line = first_line      # duplicates: line of the first declaration
        self.ctx = ctx or {}              # names a primary diagnostic may quote besides the lexeme
        self.c04 = c04                    # False: stepcode classifies the construct as a warning (C20 only)
        self.lines_ok = lines_ok          # other lines a primary diagnostic may legitimately carry
        self.base = None

    def describe(self):
        return dict(cls=self.cls, variant=self.variant, lexeme=repr(self.lexeme), line=self.line, decl_line=self.decl_line,
                    first_line=self.first_line, ctx={k: (sorted(v) if isinstance(v, (set, frozenset)) else v) for k, v in self.ctx.items()})


def _lineno(lines, pred, nth=1, start=0):
    k = 0
    for i in range(start, len(lines)):
        if pred(lines[i]):
            k += 1
            if k == nth:
                return i + 1
    return None


def _word(w):
    return re.compile(r'(?<![A-Za-z0-9_])' + re.escape(w) + r'(?![A-Za-z0-9_])')


def _decl_start(lines, ln):
    """1-based line where the declaration enclosing line ln starts."""
    for i in range(ln - 1, -1, -1):
        if re.match(r'(ENTITY|TYPE|FUNCTION|PROCEDURE|RULE|CONSTANT|SCHEMA|USE|REFERENCE)\b', lines[i]):
            return i + 1
    return ln


def _scope_of(lines, ln):
    """(kind, name) of the innermost ENTITY/FUNCTION/PROCEDURE/RULE/SCHEMA scope open at line ln (for PE017 messages)."""
    stack = []
    for i in range(ln):
        l = lines[i]
        m = re.match(r'(SCHEMA|ENTITY|FUNCTION|PROCEDURE|RULE) ([A-Za-z0-9_]+)', l)
        if m:
            stack.append((m.group(1).lower(), m.group(2)))
        elif re.match(r'END_(SCHEMA|ENTITY|FUNCTION|PROCEDURE|RULE);', l) and stack and i < ln - 1:
            stack.pop()
    return stack[-1] if stack else ('schema', '?')


class Injector(object):
    """All fault classes for one valid file.  Every method returns a Mutant or None (no suitable site)."""

    def __init__(self, f, rng, fresh_no=1):
        self.f = f
        self.rng = rng
        self.fresh = FRESH % fresh_no
        assert self.fresh not in f.text()

    # -- helpers
    def _copy(self):
        return copy.deepcopy(self.f)

    def _fresh_mutant(self, cls, variant, g, ctx=None, decl=True, **kw):
        """g is a mutated File copy in which self.fresh occurs on exactly one line."""
        lines = g.lines()
        w = _word(self.fresh)
        hits = [i + 1 for i, l in enumerate(lines) if w.search(l)]
        assert len(hits) == 1, (cls, variant, hits)
        ln = hits[0]
        return Mutant(cls, variant, '\n'.join(lines) + '\n', self.fresh, ln, _decl_start(lines, ln) if decl else ln, ctx=ctx, **kw)

    def _pick_schema(self, g, pred=lambda s: True):
        c = [s for s in g.schemas if pred(s)]
        return self.rng.choice(c) if c else None

    def _named_sites(self, s):
        """(entity, attr, T node) for every named/entity type reference inside explicit attribute types."""
        out = []
        for e in s.m.entities:
            for a in e.attrs:
                t = a.type
                while t is not None:
                    if t.kind in ('named', 'entity'):
                        out.append((e, a, t))
                    t = t.elem
        return out

    # -- undefined references
    def undef_type(self):
        g = self._copy()
        s = self._pick_schema(g)
        v = self.rng.choice(['attribute', 'attribute', 'typedef base', 'select member', 'parameter', 'constant', 'local'])
        if v == 'attribute':
            sites = self._named_sites(s)
            if not sites:
                return None
            e, a, t = self.rng.choice(sites)
            t.name = self.fresh
            return self._fresh_mutant('undefined type', 'attribute type', g, dict(entity=e.name))
        if v == 'typedef base':
            c = [t for t in s.m.types if t.kind == 'simple' and t.base.kind == 'named']
            if not c:
                return None
            t = self.rng.choice(c)
            t.base.name = self.fresh
            return self._fresh_mutant('undefined type', 'defined type base', g, dict(type=t.name))
        if v == 'select member':
            c = [t for t in s.m.types if t.kind == 'select']
            if not c:
                return None
            t = self.rng.choice(c)
            k = self.rng.randrange(len(t.members))
            t.members[k] = self.fresh
            return self._fresh_mutant('undefined type', 'select member', g, dict(type=t.name))
        if v == 'parameter':
            b = [x for x in s.blocks if x.name.endswith('f_has')][0]
            b.lines[0] = b.lines[0].replace('(v : %s)' % s.calls['has_entity'], '(v : %s)' % self.fresh)
            return self._fresh_mutant('undefined type', 'formal parameter type', g, dict(function=b.name))
        if v == 'constant':
            c = [x for x in s.consts if x[1] == s.P + 'label'][0]
            c[1] = self.fresh
            return self._fresh_mutant('undefined type', 'constant type', g, dict(constant=c[0]))
        b = [x for x in s.blocks if x.name.endswith('f_add')][0]
        b.lines[2] = '  t : %s := 0;' % self.fresh
        return self._fresh_mutant('undefined type', 'local variable type', g, dict(function=b.name))

    def undef_supertype(self):
        g = self._copy()
        c = [(s, e) for s in g.schemas for e in s.m.entities if e.supers]
        if not c:
            return None
        s, e = self.rng.choice(c)
        k = self.rng.randrange(len(e.supers))
        e.supers[k] = self.fresh
        return self._fresh_mutant('undefined supertype', 'SUBTYPE OF item %d of %d' % (k + 1, len(e.supers)), g, dict(entity=e.name))

    def undef_subtype(self):
        g = self._copy()
        c = [(s, e) for s in g.schemas for e in s.m.entities if e.sexpr]
        if not c:
            # give a supertype a constraint first (valid: lists a real subtype), then break it
            c2 = [(s, e) for s in g.schemas for e in s.m.entities if s.m.subs(e.name)]
            if not c2:
                return None
            s, e = self.rng.choice(c2)
            e.sexpr = ('oneof', [('leaf', self.fresh), ('leaf', s.m.subs(e.name)[0])])
            return self._fresh_mutant('undefined subtype', 'SUPERTYPE OF leaf (new constraint)', g, dict(entity=e.name))
        s, e = self.rng.choice(c)
        leaves = M.sexpr_leaves(e.sexpr)
        tgt = self.rng.choice(leaves)
        done = []

        def f(nm):
            if nm == tgt and not done:
                done.append(1)
                return self.fresh
            return nm
        e.sexpr = _map_sexpr(e.sexpr, f)
        return self._fresh_mutant('undefined subtype', 'SUPERTYPE OF leaf', g, dict(entity=e.name))

    def _iface_sites(self, g, kw):
        return [(s, i) for s in g.schemas for i, l in enumerate(s.iface) if l.startswith(kw)]

    def undef_schema(self, kw):
        g = self._copy()
        c = self._iface_sites(g, kw)
        if not c:
            return None
        s, i = self.rng.choice(c)
        l = s.iface[i]
        m = re.match(r'(USE|REFERENCE) FROM ([A-Za-z0-9_]+)', l)
        s.iface[i] = l[:m.start(2)] + self.fresh + l[m.end(2):]
        whole = '(' not in l
        return self._fresh_mutant('undefined schema (%s)' % kw, 'whole schema' if whole else 'item list', g, dict(schema=s.m.name))

    def undef_import_item(self, kw):
        g = self._copy()
        c = [(s, i) for s, i in self._iface_sites(g, kw) if '(' in s.iface[i]]
        if not c:
            return None
        s, i = self.rng.choice(c)
        l = s.iface[i]
        m = re.match(r'((USE|REFERENCE) FROM ([A-Za-z0-9_]+) \()([^)]*)\);', l)
        items = m.group(4).split(', ')
        k = self.rng.randrange(len(items))
        parts = items[k].split(' AS ')
        parts[0] = self.fresh
        items[k] = ' AS '.join(parts)
        s.iface[i] = m.group(1) + ', '.join(items) + ');'
        return self._fresh_mutant('undefined item in %s list' % kw, 'renamed item' if len(parts) > 1 else 'plain item', g,
                                  dict(schema=m.group(3), importer=s.m.name))

    def undef_function(self):
        g = self._copy()
        s = self._pick_schema(g)
        fa = s.P + 'f_add'
        v = self.rng.choice(['derived', 'constant', 'function body', 'rule'])
        if v == 'derived':
            c = [d for e in s.m.entities for d in e.derived if d.expr.startswith(fa + '(')]
            if not c:
                v = 'constant'
            else:
                d = self.rng.choice(c)
                d.expr = self.fresh + d.expr[len(fa):]
                return self._fresh_mutant('undefined function', 'call in DERIVE', g)
        if v == 'constant':
            c = [x for x in s.consts if x[2].startswith(fa + '(')][0]
            c[2] = self.fresh + c[2][len(fa):]
            return self._fresh_mutant('undefined function', 'call in CONSTANT', g)
        if v == 'function body':
            b = [x for x in s.blocks if x.name.endswith('f_has')][0]
            b.lines[4] = b.lines[4].replace(fa + '(', self.fresh + '(')
            return self._fresh_mutant('undefined function', 'call in RETURN', g, dict(function=b.name))
        b = [x for x in s.blocks if x.kind == 'RULE'][0]
        b.lines[8] = b.lines[8].replace(s.P + 'f_has(', self.fresh + '(')
        return self._fresh_mutant('undefined function', 'call in QUERY of RULE', g, dict(rule=b.name))

    def undef_procedure(self):
        g = self._copy()
        s = self._pick_schema(g)
        v = self.rng.choice(['function body', 'rule'])
        b = [x for x in s.blocks if (x.name.endswith('f_add') if v == 'function body' else x.kind == 'RULE')][0]
        k = 5
        assert (s.P + 'p_bump(') in b.lines[k]
        b.lines[k] = b.lines[k].replace(s.P + 'p_bump(', self.fresh + '(')
        return self._fresh_mutant('undefined procedure', 'call in ' + v, g, dict(scope=b.name))

    def undef_attr_ref(self):
        g = self._copy()
        s = self._pick_schema(g)
        ent, att = s.calls['has_entity'], s.calls['has_attr']
        opts = ['function body']
        if any(any(w.startswith('w_sup') for w in e.where) for e in s.m.entities):
            opts.append('group qualified')
        if any(e.unique for e in s.m.entities):
            opts.append('unique')
        if any(e.supers and e.name != 'a_x1' for e in s.m.entities):
            opts.append('qualified unique')
        v = self.rng.choice(opts)
        if v == 'function body':
            b = [x for x in s.blocks if x.name.endswith('f_has')][0]
            b.lines[1] = b.lines[1].replace('v.' + att, 'v.' + self.fresh)
            return self._fresh_mutant('undefined attribute reference', 'v.attr in function', g, dict(entity=ent))
        if v == 'group qualified':
            e = self.rng.choice([e for e in s.m.entities if any(w.startswith('w_sup') for w in e.where)])
            e.where = [w.replace('.' + att + ')', '.' + self.fresh + ')') if w.startswith('w_sup') else w for w in e.where]
            return self._fresh_mutant('undefined attribute reference', 'SELF\\super.attr in WHERE', g, dict(entity=ent, in_entity=e.name))
        if v == 'qualified unique':
            e = self.rng.choice([e for e in s.m.entities if e.supers and e.name != 'a_x1'])
            sup = self.rng.choice(e.supers)
            e.unique.append(('u_zq', ['SELF\\%s.%s' % (sup, self.fresh)]))
            return self._fresh_mutant('undefined attribute reference', 'SELF\\super.attr in UNIQUE rule', g, dict(entity=sup, in_entity=e.name))
        e = self.rng.choice([e for e in s.m.entities if e.unique])
        e.unique[-1] = (e.unique[-1][0], [self.fresh])
        return self._fresh_mutant('undefined attribute reference', 'UNIQUE rule', g, dict(entity=e.name))

    # -- duplicates
    def _dup(self, cls, variant, g, name, pat, ctx=None):
        lines = g.lines()
        rx = re.compile(pat)
        hits = [i + 1 for i, l in enumerate(lines) if rx.match(l)]
        assert len(hits) == 2, (cls, name, hits)
        return Mutant(cls, variant, '\n'.join(lines) + '\n', name, hits[1], hits[1], first_line=hits[0], ctx=ctx)

    def dup_entity(self):
        g = self._copy()
        s = self._pick_schema(g)
        e = self.rng.choice(s.m.entities)
        pos = self.rng.randint(s.m.entities.index(e) + 1, len(s.m.entities))
        s.m.entities.insert(pos, M.Entity(e.name, attrs=[M.Attr('zq_dup_a', M.INT())]))
        return self._dup('duplicate entity', 'same scope', g, e.name, r'ENTITY %s\b' % re.escape(e.name))

    def dup_type(self):
        g = self._copy()
        s = self._pick_schema(g)
        t = self.rng.choice(s.m.types)
        pos = self.rng.randint(s.m.types.index(t) + 1, len(s.m.types))
        s.m.types.insert(pos, M.TypeDef(t.name, 'simple', base=M.INT()))
        return self._dup('duplicate type', 'same scope', g, t.name, r'TYPE %s =' % re.escape(t.name))

    def dup_type_entity(self):
        """An entity and a defined type of one schema share one name space."""
        g = self._copy()
        s = self._pick_schema(g)
        t = self.rng.choice(s.m.types)
        s.m.entities.append(M.Entity(t.name, attrs=[M.Attr('zq_dup_a', M.INT())]))
        return self._dup('duplicate entity', 'entity named like a type', g, t.name, r'(TYPE %s =|ENTITY %s\b)' % (re.escape(t.name), re.escape(t.name)))

    def dup_attribute(self):
        g = self._copy()
        c = [(s, e) for s in g.schemas for e in s.m.entities if e.attrs]
        s, e = self.rng.choice(c)
        a = self.rng.choice(e.attrs)
        pos = self.rng.randint(e.attrs.index(a) + 1, len(e.attrs))
        e.attrs.insert(pos, M.Attr(a.name, M.INT()))
        return self._dup('duplicate attribute', 'same entity', g, a.name, r'  %s :' % re.escape(a.name), dict(entity=e.name))

    def dup_function(self):
        g = self._copy()
        s = self._pick_schema(g)
        b = self.rng.choice([x for x in s.blocks if x.kind == 'FUNCTION'])
        s.blocks.append(Block('FUNCTION', b.name, ['FUNCTION %s(z : INTEGER) : INTEGER;' % b.name, '  RETURN (z);', 'END_FUNCTION;']))
        return self._dup('duplicate function', 'same schema', g, b.name, r'FUNCTION %s\(' % re.escape(b.name))

    def dup_constant(self):
        g = self._copy()
        s = self._pick_schema(g)
        c = self.rng.choice(s.consts)
        pos = self.rng.randint(s.consts.index(c) + 1, len(s.consts))
        s.consts.insert(pos, [c[0], 'INTEGER', '3'])
        return self._dup('duplicate constant', 'same CONSTANT block', g, c[0], r'  %s :' % re.escape(c[0]))

    # -- structural rules
    def subtype_cycle(self, length=None):
        g = self._copy()
        c = []
        for s in g.schemas:
            for e in s.m.entities:
                if e.name == 'a_x1':
                    continue
                for d in s.m.descendants(e.name):
                    # path length from e down to d
                    c.append((s, e, d))
        if not c:
            return None
        if length == 2:
            c2 = [(s, e, d) for s, e, d in c if e.name in s.m.entity(d).supers]
            c = c2 or c
        s, e, d = self.rng.choice(c)
        # every entity on a path e <- ... <- d is now its own subtype
        cyc = set([e.name, d]) | set(x for x in s.m.ancestors(d) if s.m.is_a(x, e.name))
        direct = e.name in s.m.entity(d).supers
        e.supers = e.supers + [d]
        lines = g.lines()
        ln = _lineno(lines, lambda l: re.match(r'ENTITY %s\b' % re.escape(e.name), l))
        heads = set(_lineno(lines, lambda l, x=x: re.match(r'ENTITY %s\b' % re.escape(x), l)) for x in cyc)
        sl = _lineno(lines, lambda l: l.startswith('  SUBTYPE OF ('), 1, ln - 1)
        return Mutant('subtype cycle', 'length 2' if direct and len(cyc) == 2 else 'length >= 3', '\n'.join(lines) + '\n', e.name, sl, ln,
                      ctx=dict(cycle=cyc, entity=e.name), lines_ok=heads | {sl})

    def select_cycle(self):
        g = self._copy()
        c = [(s, t) for s in g.schemas for t in s.m.types if t.kind == 'select']
        if not c:
            return None
        s, t = self.rng.choice(c)
        outer = [u for u in s.m.types if u.kind == 'select' and t.name in u.members]
        if outer and self.rng.random() < .7:
            u = self.rng.choice(outer)
            t.members.append(u.name)
            cyc, variant = {t.name, u.name}, 'two selects'
        else:
            t.members.append(t.name)
            cyc, variant = {t.name}, 'select lists itself'
        lines = g.lines()
        heads = set(_lineno(lines, lambda l, x=x: l.startswith('TYPE %s =' % x)) for x in cyc)
        ln = _lineno(lines, lambda l: l.startswith('TYPE %s =' % t.name))
        return Mutant('select cycle', variant, '\n'.join(lines) + '\n', t.name, ln, ln, ctx=dict(cycle=cyc), lines_ok=heads)

    def missing_supertype(self):
        """A supertype's SUPERTYPE OF constraint names an entity that does not declare it in SUBTYPE OF."""
        g = self._copy()
        c = []
        for s in g.schemas:
            for e in s.m.entities:
                for x in s.m.entities:
                    if x.name != e.name and e.name not in x.supers and x.name not in M.sexpr_leaves(e.sexpr) \
                            and x.name not in _safe_ancestors(s.m, e.name):   # an ancestor named as subtype would ALSO be a subtype cycle: two faults
                        c.append((s, e, x))
        if not c:
            return None
        s, e, x = self.rng.choice(c)
        variant = 'added to existing constraint' if e.sexpr else 'new constraint'
        e.sexpr = ('andor', e.sexpr, ('leaf', x.name)) if e.sexpr else ('leaf', x.name)
        lines = g.lines()
        ln = _lineno(lines, lambda l: re.match(r'ENTITY %s\b' % re.escape(e.name), l))
        sl = _lineno(lines, lambda l: 'SUPERTYPE OF (' in l, 1, ln - 1)
        xl = _lineno(lines, lambda l: re.match(r'ENTITY %s\b' % re.escape(x.name), l))
        return Mutant('subtype does not list its supertype', variant, '\n'.join(lines) + '\n', x.name, sl, ln,
                      ctx=dict(supertype=e.name, subtype=x.name), lines_ok={sl, xl, ln})

    def inherited_attr(self):
        g = self._copy()
        c = []
        for s in g.schemas:
            for e in s.m.entities:
                if e.name == 'a_x1':
                    continue
                for anc in s.m.ancestors(e.name):
                    for a in s.m.entity(anc).attrs:
                        c.append((s, e, anc, a))
        if not c:
            return None
        s, e, anc, a = self.rng.choice(c)
        # a DERIVE that redeclares the same attribute in e would make two faults: drop it (still valid without it)
        e.derived = [d for d in e.derived if not (d.redeclares and d.redeclares[1] == a.name)]
        e.attrs.insert(self.rng.randint(0, len(e.attrs)), M.Attr(a.name, M.INT()))
        lines = g.lines()
        rx = re.compile(r'  %s :' % re.escape(a.name))
        hits = [i + 1 for i, l in enumerate(lines) if rx.match(l)]
        assert len(hits) == 2
        return Mutant('inherited attribute re-declared', 'direct supertype' if anc in e.supers else 'indirect supertype',
                      '\n'.join(lines) + '\n', a.name, hits[1], _decl_start(lines, hits[1]), first_line=hits[0],
                      ctx=dict(entity=e.name, supertypes=set(s.m.ancestors(e.name))))

    def inverse_missing_attr(self):
        g = self._copy()
        # variant: the name EXISTS, but only as an own attribute of a SUBTYPE of the inverted entity (not visible from the inverted entity)
        if self.rng.random() < .35:
            c2 = []
            for s in g.schemas:
                for x in s.m.entities:
                    upnames = set(a.name for anc in _safe_ancestors(s.m, x.name) | {x.name} if s.m.has_entity(anc) for a in s.m.entity(anc).attrs)
                    for y in s.m.entities:
                        if x.name in y.supers:
                            for a in y.attrs:
                                if a.name not in upnames:
                                    c2.append((s, x, y, a))
            if c2:
                s, x, y, a = self.rng.choice(c2)
                e = self.rng.choice(s.m.entities)
                e.inverse.append(M.Inverse('zq_inv', x.name, a.name, 'SET', 0, None))
                lines = g.lines()
                ln = _lineno(lines, lambda l: l.startswith('  zq_inv :'))
                return Mutant('INVERSE names a missing attribute', 'attribute declared only in a subtype of the inverted entity', '\n'.join(lines) + '\n',
                              a.name, ln, _decl_start(lines, ln), ctx=dict(entity=x.name, in_entity=e.name, subtype=y.name))
        c = [(s, e, i) for s in g.schemas for e in s.m.entities for i in e.inverse]
        if c and self.rng.random() < .6:
            s, e, i = self.rng.choice(c)
            i.attr = self.fresh
            return self._fresh_mutant('INVERSE names a missing attribute', 'existing inverse', g, dict(entity=i.entity, in_entity=e.name))
        s = self._pick_schema(g)
        e, x = self.rng.choice(s.m.entities), self.rng.choice(s.m.entities)
        e.inverse.append(M.Inverse('zq_inv', x.name, self.fresh, 'SET', 0, None))
        return self._fresh_mutant('INVERSE names a missing attribute', 'new inverse', g, dict(entity=x.name, in_entity=e.name))

    def inverse_non_entity(self):
        g = self._copy()
        s = self._pick_schema(g)
        e = self.rng.choice(s.m.entities)
        def has_entity(tt):
            while tt is not None:
                if tt.kind == 'entity' or (tt.kind == 'named' and s.m.has_entity(tt.name)):
                    return True
                tt = tt.elem
            return False
        # a defined type that is an aggregate OF ENTITIES is taken for its element entity by the resolver (other diagnostic): not this class
        t = self.rng.choice([t for t in s.m.types if t.kind == 'enum' or (t.kind == 'simple' and not has_entity(t.base))])
        owner = self.rng.choice([x for x in s.m.entities if x.attrs])
        a = self.rng.choice(owner.attrs)
        e.inverse.append(M.Inverse('zq_inv', t.name, a.name, self.rng.choice(['SET', 'BAG', None]), 0, None))
        lines = g.lines()
        ln = _lineno(lines, lambda l: l.startswith('  zq_inv :'))
        return Mutant('INVERSE names a non-entity', 'defined type %s' % t.kind, '\n'.join(lines) + '\n', t.name, ln, _decl_start(lines, ln),
                      ctx=dict(attr=a.name, in_entity=e.name, type=t.name))

    # -- token level
    def _text_mutant(self, cls, variant, lines, lexeme, ln, ctx=None, lines_ok=None, c04=True, raw=None):
        text = raw if raw is not None else '\n'.join(lines) + '\n'
        return Mutant(cls, variant, text, lexeme, ln, _decl_start(lines, ln), ctx=ctx, lines_ok=lines_ok, c04=c04)

    def _next_token_line(self, lines, ln):
        for i in range(ln, len(lines)):
            if lines[i].strip():
                return i + 1
        return len(lines) + 1      # end of file: the text ends with a newline, so EOF is met on the line after the last one

    def drop_semicolon(self):
        lines = self.f.lines()
        c = [i for i, l in enumerate(lines) if l.endswith(';') and "'" not in l and '"' not in l]
        i = self.rng.choice(c)
        kind = re.match(r'\s*([A-Z_]+)?', lines[i]).group(1) or 'declaration element'
        lines[i] = lines[i][:-1]
        return self._text_mutant('syntax: semicolon dropped', 'after ' + (kind if kind.isupper() and len(kind) > 1 else 'declaration element'),
                                 lines, ';', i + 1, ctx=dict(scope=_scope_of(lines, i + 1)), lines_ok={i + 1, self._next_token_line(lines, i + 1)})

    def drop_end_entity(self):
        lines = self.f.lines()
        c = [i for i, l in enumerate(lines) if l == 'END_ENTITY;']
        i = self.rng.choice(c)
        scope = _scope_of(lines, i + 1)
        del lines[i]
        nt = self._next_token_line(lines, i)
        return self._text_mutant('syntax: END_ENTITY dropped', 'entity', lines, 'END_ENTITY', nt, ctx=dict(scope=scope), lines_ok={i, nt})

    def stray_keyword(self):
        lines = self.f.lines()
        c = [i for i, l in enumerate(lines) if re.match(r'  [A-Za-z0-9_]+ : ', l) and ':=' not in l]
        i = self.rng.choice(c)
        kw = self.rng.choice(KEYWORDS_NOT_A_TYPE)
        lines[i] = lines[i].replace(' : ', ' : %s ' % kw, 1)
        return self._text_mutant('syntax: stray keyword', 'reserved word where a type is required', lines, kw, i + 1,
                                 ctx=dict(scope=_scope_of(lines, i + 1)), lines_ok={i + 1, self._next_token_line(lines, i + 1)})

    def _attr_line(self, lines):
        c = [i for i, l in enumerate(lines) if re.match(r'  [A-Za-z0-9_]+ : ', l) and ':=' not in l]
        return self.rng.choice(c)

    def illegal_char(self):
        lines = self.f.lines()
        i = self._attr_line(lines)
        ch = self.rng.choice(ILLEGAL_CHARS)
        pos = self.rng.choice(['after colon', 'before name', 'before semicolon'])
        if pos == 'after colon':
            lines[i] = lines[i].replace(' : ', ' : %s ' % ch, 1)
        elif pos == 'before name':
            lines[i] = '  ' + ch + ' ' + lines[i][2:]
        else:
            lines[i] = lines[i][:-1] + ' ' + ch + ';'
        return self._text_mutant('illegal character', pos, lines, ch, i + 1)

    def unrecognised_char(self):
        lines = self.f.lines()
        i = self._attr_line(lines)
        ch = self.rng.choice(UNRECOGNISED_CHARS)
        lines[i] = lines[i].replace(' : ', ' : %s ' % ch, 1)
        return self._text_mutant('unrecognised character', 'between tokens', lines, ch, i + 1)

    def non_ascii(self):
        lines = self.f.lines()
        i = self._attr_line(lines)
        b = self.rng.choice([0x80, 0xA0, 0xE9, 0xFF])
        mark = '\x00NA\x00'
        pos = self.rng.choice(['between tokens', 'inside identifier'])
        if pos == 'between tokens':
            lines[i] = lines[i].replace(' : ', ' : %s ' % mark, 1)
        else:
            lines[i] = lines[i][:3] + mark + lines[i][3:]
        raw = ('\n'.join(lines) + '\n').encode('ascii').replace(mark.encode(), bytes([b]))
        lines[i] = lines[i].replace(mark, '?')
        return self._text_mutant('non-ASCII byte', pos, lines, b, i + 1, raw=raw)

    def underscore_ident(self):
        g = self._copy()
        c = [(s, e) for s in g.schemas for e in s.m.entities]
        s, e = self.rng.choice(c)
        name = '_' + self.fresh
        e.attrs.insert(self.rng.randint(0, len(e.attrs)), M.Attr(name, M.INT()))
        lines = g.lines()
        ln = _lineno(lines, lambda l: l.startswith('  %s :' % name))
        return self._text_mutant('identifier starting with underscore', 'attribute name', lines, name, ln, ctx=dict(entity=e.name))

    def bad_hex_digit(self):
        g = self._copy()
        s = self._pick_schema(g)
        n = 8 * self.rng.randint(1, 2)
        digs = [self.rng.choice('0123456789ABCDEF') for _ in range(n)]
        bad = self.rng.choice('GZgz')
        digs[self.rng.randrange(n)] = bad
        s.consts.append([s.P + 'k_zq', 'STRING', '"%s"' % ''.join(digs)])
        lines = g.lines()
        ln = _lineno(lines, lambda l: l.startswith('  %sk_zq :' % s.P))
        return self._text_mutant('encoded string: non-hex digit', '%d digits' % n, lines, bad, ln)

    def bad_hex_count(self):
        g = self._copy()
        s = self._pick_schema(g)
        n = self.rng.choice([1, 3, 4, 7, 9, 12, 15])
        s.consts.append([s.P + 'k_zq', 'STRING', '"%s"' % ''.join(self.rng.choice('0123456789ABCDEF') for _ in range(n))])
        lines = g.lines()
        ln = _lineno(lines, lambda l: l.startswith('  %sk_zq :' % s.P))
        return self._text_mutant('encoded string: digit count not a multiple of 8', '%d digits' % n, lines, n, ln)

    def unterminated_string(self):
        g = self._copy()
        s = self._pick_schema(g)
        c = [x for x in s.consts if x[2] == "'abc'"][0]
        c[2] = "'abc"
        lines = g.lines()
        ln = _lineno(lines, lambda l: l.startswith('  %s :' % c[0]))
        return self._text_mutant('unterminated string literal', 'constant initialiser', lines, "'abc", ln,
                                 lines_ok={ln})

    def warn_block(self):
        """Not a fault for stepcode: declarations that make it print WARNINGs of several classes (C20 switch matrix)."""
        g = self._copy()
        s = g.schemas[0]
        P = s.P
        s.m.entities.append(M.Entity(P + 'zw_sup', attrs=[M.Attr(P + 'zw_i', M.INT())]))
        s.m.entities.append(M.Entity(P + 'zw_sub', supers=[P + 'zw_sup'], attrs=[M.Attr(P + 'zw_r', M.REAL()), M.Attr(P + 'zw_b', M.T('BINARY'))]))
        s.blocks.append(Block('FUNCTION', P + 'zw_f', [
            'FUNCTION %szw_f(v : %szw_sup; b : BINARY) : BOOLEAN;' % (P, P),
            '  IF v.%szw_r > 1.0e-45 THEN' % P,
            '    RETURN (b[1] = b[2]);',
            '  END_IF;',
            '  RETURN (%sf_add(1, 2, 3) > 0);' % P,
            'END_FUNCTION;']))
        lines = g.lines()
        ln = _lineno(lines, lambda l: l.startswith('  IF v.%szw_r' % P))
        return self._text_mutant('warnings of several classes', 'downcast+limits+unsupported+argument count', lines, P + 'zw_sub', ln,
                                 ctx=dict(downcast_to=P + 'zw_sub', callee=P + 'f_add', uses=3, expected=2, lines={14: ln, 25: ln, 24: ln + 1, 55: ln + 3}),
                                 c04=False)

    def wrong_arg_count(self):
        """ISO 10303-11 12.8: actual parameters must match the formals; stepcode reports a WARNING, so C20 only."""
        g = self._copy()
        s = self._pick_schema(g)
        more = self.rng.random() < .5
        c = [x for x in s.consts if x[2].startswith(s.P + 'f_add(')][0]
        c[2] = '%sf_add(%sk_lim, 2, 3)' % (s.P, s.P) if more else '%sf_add(%sk_lim)' % (s.P, s.P)
        lines = g.lines()
        ln = _lineno(lines, lambda l: l.startswith('  %s :' % c[0]))
        return self._text_mutant('wrong argument count', 'too many' if more else 'too few', lines, s.P + 'f_add', ln,
                                 ctx=dict(uses=3 if more else 1, expected=2), c04=False)


# class table: (name, method name, args, only for multi-schema files)
CLASSES = [
    ('undef_type', 'undef_type', (), False),
    ('undef_supertype', 'undef_supertype', (), False),
    ('undef_subtype', 'undef_subtype', (), False),
    ('undef_schema_use', 'undef_schema', ('USE',), True),
    ('undef_schema_ref', 'undef_schema', ('REFERENCE',), True),
    ('undef_item_use', 'undef_import_item', ('USE',), True),
    ('undef_item_ref', 'undef_import_item', ('REFERENCE',), True),
    ('undef_function', 'undef_function', (), False),
    ('undef_procedure', 'undef_procedure', (), False),
    ('undef_attr_ref', 'undef_attr_ref', (), False),
    ('dup_entity', 'dup_entity', (), False),
    ('dup_type', 'dup_type', (), False),
    ('dup_type_entity', 'dup_type_entity', (), False),
    ('dup_attribute', 'dup_attribute', (), False),
    ('dup_function', 'dup_function', (), False),
    ('dup_constant', 'dup_constant', (), False),
    ('subtype_cycle', 'subtype_cycle', (), False),
    ('select_cycle', 'select_cycle', (), False),
    ('missing_supertype', 'missing_supertype', (), False),
    ('inherited_attr', 'inherited_attr', (), False),
    ('inverse_missing_attr', 'inverse_missing_attr', (), False),
    ('inverse_non_entity', 'inverse_non_entity', (), False),
    ('drop_semicolon', 'drop_semicolon', (), False),
    ('drop_end_entity', 'drop_end_entity', (), False),
    ('stray_keyword', 'stray_keyword', (), False),
    ('illegal_char', 'illegal_char', (), False),
    ('unrecognised_char', 'unrecognised_char', (), False),
    ('non_ascii', 'non_ascii', (), False),
    ('underscore_ident', 'underscore_ident', (), False),
    ('bad_hex_digit', 'bad_hex_digit', (), False),
    ('bad_hex_count', 'bad_hex_count', (), False),
    ('unterminated_string', 'unterminated_string', (), False),
    ('wrong_arg_count', 'wrong_arg_count', (), False),
]
NOT_PLANNED = ('warn_block',)    # produced on request only (Injector.warn_block)
CLASS_IDS = [c[0] for c in CLASSES]


def mutants(f, seed_tag, ids, mask=()):
    """One mutant of file f for each class id in ids (skipping classes without a site and masked ids)."""
    out = []
    for k, cid in enumerate(ids):
        if cid in mask:
            continue
        _id, meth, args, multi_only = CLASSES[CLASS_IDS.index(cid)]
        if multi_only and len(f.schemas) < 2:
            continue
        rng = random.Random('c04f/%s/%s/%s' % (seed_tag, f.name, cid))
        inj = Injector(f, rng, fresh_no=rng.randint(1, 999))
        m = getattr(inj, meth)(*args)
        if m is None:
            continue
        m.cid = cid
        m.base = f
        out.append(m)
    return out


def plan(files, seed, per_file, only=None, mask=()):
    """Deterministic assignment of `per_file` classes to each file so that every class is used across the corpus."""
    ids = [c for c in CLASS_IDS if only is None or c in only]
    out = []
    pos = random.Random('c04plan/%d' % seed).randrange(len(ids))
    for f in files:
        isMulti = len(f.schemas) > 1
        chosen = []
        tries = 0
        while len(chosen) < min(per_file, len(ids)) and tries < 4 * len(ids):
            cid = ids[pos % len(ids)]
            pos += 1
            tries += 1
            if cid in chosen or (CLASSES[CLASS_IDS.index(cid)][3] and not isMulti):
                continue
            chosen.append(cid)
        out += mutants(f, 's%d' % seed, chosen, mask)
    return out
