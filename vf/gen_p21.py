"""Schema model -> conforming populations -> Part 21 text variants.  The population is the ground truth."""
import random
from . import ref_complex
from .model import SIMPLE
from .ref_p21 import Inst

INTS = [0, 1, -1, 7, 42, -300, 2147483647, -2147483648, 2147483648, 4294967296, 9007199254740993,
        9223372036854775806, -9223372036854775807, 1000, 999]
REALS = ['0.', '1.', '-1.5', '2.E5', '1.0E-10', '+3.25', '1.E+10', '123456789.012345', '0.1', '-0.000123',
         '1.5E+308', '2.2250738585072014E-308', '1.E-307', '9.99999999999999E22', '12345678901234.5', '3.14159265358979',
         '1.0E0', '-0.', '100.', '6.02214076E+23']
STRS = ['', 'a', 'hello world', "it''s", 'x\\\\y', '\\S\\i', '\\X\\E9', '\\X2\\00E9\\X0\\', '\\X4\\0001F600\\X0\\',
        '#12', '(a,b)', 'semi;colon', '/* not a comment */', "''", 'UPPER lower 0123', '$', '*', '.T.', "a''''b",
        'tab\\X\\09end', 'ENDSEC', 'DATA;', '=', '"q"', '\\PA\\', 'left (of #2', 'b) c', '((', ')(', "(''"]
BINS = ['0', '1F', '3A', '2FF', '0ABCDEF0123456789', '1', '04', '3']


class Population(object):
    def __init__(self, schema, insts, header=None):
        self.schema = schema
        self.insts = insts           # list of Inst in file order
        self.header = header or default_header(schema)
        self.tags = set()

    def by_id(self):
        return {i.id: i for i in self.insts}


def default_header(schema, desc=("a",), authors=("au",), orgs=("org",)):
    return [('FILE_DESCRIPTION', [('agg', [('str', d) for d in desc]), ('str', '2;1')]),
            ('FILE_NAME', [('str', 'n'), ('str', '2020-01-01T00:00:00'), ('agg', [('str', a) for a in authors]),
                           ('agg', [('str', o) for o in orgs]), ('str', 'pp'), ('str', 'os'), ('str', 'auth')]),
            ('FILE_SCHEMA', [('agg', [('str', schema.name.upper())])])]


class PopGen(object):
    def __init__(self, schema, rng, avoid=(), max_complex=2, strs=None, reals=None, ints=None):
        self.s, self.rng, self.avoid = schema, rng, set(avoid)
        self.max_complex = max_complex
        self.STRS = strs or STRS
        self.REALS = reals or REALS
        self.INTS = ints or INTS
        self.tags = set()

    def ok(self, f):
        return f not in self.avoid

    # ---- which entity sets to instantiate
    def instantiable(self):
        s = self.s
        out = []
        for e in s.entities:
            T = set(s.ancestors(e.name) + [e.name])
            if ref_complex.legal(s, T):
                out.append(e.name)
        return out

    def complex_sets(self, limit=40):
        """Legal sets with >= 2 leaves (true external mappings)."""
        s, rng = self.s, self.rng
        names = [e.name for e in s.entities]
        found = []
        seen = set()
        for _ in range(limit * 4):
            k = rng.randint(2, min(3, len(names)))
            base = rng.sample(names, k)
            T = set()
            for b in base:
                T |= set(s.ancestors(b) + [b])
            fz = frozenset(T)
            if fz in seen:
                continue
            seen.add(fz)
            if not self.ok('complex_multi_super') and any(len(s.entity(x).supers) > 1 for x in T):
                continue
            if len(ref_complex.leaves_of(s, T)) >= 2 and ref_complex.connected(s, T) and ref_complex.legal(s, T):
                found.append(sorted(T))
                if len(found) >= limit:
                    break
        return found

    # ---- population
    def population(self, n_extra=4, sparse=False, shuffle=False, with_complex=True):
        s, rng = self.s, self.rng
        plan = []   # list of ('simple', ename) | ('complex', [names])
        inst_names = self.instantiable()
        for en in inst_names:
            plan.append(('simple', en))
        for _ in range(n_extra):
            if inst_names:
                plan.append(('simple', rng.choice(inst_names)))
        if with_complex and self.ok('complex'):
            cs = self.complex_sets()
            rng.shuffle(cs)
            for T in cs[:self.max_complex]:
                plan.append(('complex', T))
        rng.shuffle(plan)
        if not self.ok('ref_cycle'):
            def need(pl):
                names = [pl[1]] if pl[0] == 'simple' else pl[1]
                n = 0
                for en in names:
                    for (_o, a, d) in (s.all_attrs(en) if pl[0] == 'simple' else s.own_attrs(en, names)):
                        if not a.optional and not d and self._needs_entity(a.type):
                            n += 1
                return n
            plan.sort(key=need)
        # ids
        ids = []
        cur = rng.choice([1, 1, 10, 100])
        for _ in plan:
            ids.append(cur)
            cur += rng.choice([1, 1, 1, 2, 5, 37]) if sparse else 1
        # membership for references: id -> set of entity names it is
        member = {}
        for iid, pl in zip(ids, plan):
            if pl[0] == 'simple':
                member[iid] = set(s.ancestors(pl[1]) + [pl[1]])
            else:
                member[iid] = set(pl[1])
        self.member = member
        self.plan_pos = dict((iid, k) for k, iid in enumerate(ids))
        self.complex_ids = set(iid for iid, pl in zip(ids, plan) if pl[0] == 'complex')
        self.simple_entity = dict((iid, pl[1]) for iid, pl in zip(ids, plan) if pl[0] == 'simple')
        insts = []
        for iid, pl in zip(ids, plan):
            if pl[0] == 'simple':
                vals = [self.attr_value(a, der, iid) for (_o, a, der) in s.all_attrs(pl[1])]
                insts.append(Inst(iid, [(pl[1].upper(), vals)], False))
            else:
                parts = []
                for en in sorted(pl[1]):
                    vals = [self.attr_value(a, der, iid) for (_o, a, der) in s.own_attrs(en, pl[1])]
                    parts.append((en.upper(), vals))
                insts.append(Inst(iid, parts, True))
                self.tags.add('complex')
        if shuffle:
            rng.shuffle(insts)
            self.tags.add('forward_ref')
        p = Population(s, insts)
        p.tags = set(self.tags)
        return p

    # ---- values
    def attr_value(self, a, derived, self_id):
        if derived:
            self.tags.add('derived *')
            return ('star',)
        if a.optional and self.rng.random() < .35:
            self.tags.add('optional $')
            return ('null',)
        had = 'unfillable' in self.tags
        v = self.value(a.type, self_id)
        if a.optional and not had and 'unfillable' in self.tags:
            # no conforming value exists in this population (e.g. no instance of the referenced entity): `$` is conforming here
            self.tags.discard('unfillable')
            return ('null',)
        return v

    def ref_to(self, ename, self_id, from_select=False, select_entities=()):
        cands = [i for i, m in self.member.items() if ename in m]
        if not self.ok('ref_cycle'):
            # acyclic populations only: references go to instances planned earlier
            cands = [i for i in cands if self.plan_pos[i] < self.plan_pos[self_id]]
        if from_select and not self.ok('select_ref_complex'):
            cands = [i for i in cands if i not in self.complex_ids]
        if from_select and not self.ok('select_ref_secondary_super'):
            # the generated AssignEntity tests the select's entity members IN ORDER with IsA() and static-casts to the first hit:
            # every member the instance is-a must lie on its first-supertype chain (the only C++ base classes)
            def safe(i):
                if i in self.complex_ids:
                    return True
                en = self.simple_entity[i]
                chain = self.primary_chain(en)
                return all(m in chain for m in set(select_entities) | {ename} if self.s.is_a(en, m))
            cands = [i for i in cands if safe(i)]
        if not cands:
            return None
        return ('ref', self.rng.choice(cands))

    def _needs_entity(self, t):
        if t.kind == 'entity':
            return True
        if t.kind == 'aggr':
            return (t.lo or 0) > 0 and self._needs_entity(t.elem) or (t.akind == 'ARRAY' and self._needs_entity(t.elem))
        if t.kind == 'named':
            td = self.s.type(t.name)
            if td.kind == 'simple':
                return self._needs_entity(td.base)
            if td.kind == 'select':
                return all(k is None for k, _lt in self.s.select_leaves(td))
        return False

    def primary_chain(self, en):
        out = [en]
        while self.s.entity(out[-1]).supers:
            out.append(self.s.entity(out[-1]).supers[0])
        return out

    def value(self, t, self_id, in_select=False):
        s, rng = self.s, self.rng
        k = t.kind
        if k == 'INTEGER':
            return ('int', rng.choice(self.INTS))
        if k == 'REAL':
            txt = rng.choice(self.REALS)
            return ('real', float(txt), txt)
        if k == 'NUMBER':
            if rng.random() < .5:
                txt = rng.choice(self.REALS)
                return ('real', float(txt), txt)
            return ('int', rng.choice(self.INTS[:8]))
        if k == 'STRING':
            return ('str', rng.choice(self.STRS))
        if k == 'BINARY':
            return ('bin', rng.choice(BINS))
        if k == 'BOOLEAN':
            return ('enum', rng.choice(['T', 'F']))
        if k == 'LOGICAL':
            return ('enum', rng.choice(['T', 'F', 'U']))
        if k == 'entity':
            r = self.ref_to(t.name, self_id)
            if r is None:
                self.tags.add('unfillable')   # no conforming instance exists: population is not conforming, caller skips it
                return ('null',)
            return r
        if k == 'aggr':
            return self.aggr_value(t, self_id)
        # named
        td = s.type(t.name)
        if td.kind == 'simple':
            return self.value(td.base, self_id)
        if td.kind == 'enum':
            return ('enum', rng.choice(td.items).upper())
        # select
        leaves = s.select_leaves(td)
        kw, lt = rng.choice(leaves)
        if kw is None:
            r = self.ref_to(lt.name, self_id, True, [x[1].name for x in leaves if x[0] is None])
            if r is not None:
                return r
            kwl = [x for x in leaves if x[0] is not None]
            if not kwl:
                self.tags.add('unfillable')
                return ('null',)
            kw, lt = rng.choice(kwl)
        v = self.value(lt, self_id, True)
        return ('typed', kw.upper(), v)

    def aggr_value(self, t, self_id):
        rng = self.rng
        if t.akind == 'ARRAY':
            n = t.hi - t.lo + 1
        else:
            lo = t.lo or 0
            hi = t.hi if t.hi is not None else lo + 4
            n = rng.choice([lo, lo, hi, rng.randint(lo, hi)])
            if rng.random() < .03 and t.hi is None:
                n = 40
        out = []
        tries = 0
        while len(out) < n and tries < n * 6 + 10:
            tries += 1
            if t.optional and self.ok('array_optional_null') and rng.random() < .3:
                out.append(('null',))
                self.tags.add('array optional $')
                continue
            v = self.value(t.elem, self_id)
            if v == ('null',):
                if t.akind == 'ARRAY':
                    # cannot fill: keep a typed filler is impossible; give up on conformance -> caller sees flag
                    self.tags.add('unfillable')
                    out.append(v)
                continue
            if (t.akind == 'SET' or t.unique) and any(_same(v, x) for x in out):
                continue
            out.append(v)
        if len(out) < (t.lo or 0) and t.akind != 'ARRAY':
            self.tags.add('unfillable')
        return ('agg', out)


def _same(a, b):
    from .ref_p21 import canon_value
    return canon_value(a) == canon_value(b)


# ------------------------------------------------------------------ rendering
def value_tokens(v, out):
    k = v[0]
    if k == 'int':
        out.append(('val', str(v[1])))
    elif k == 'real':
        out.append(('val', v[2] if len(v) > 2 else repr(v[1])))
    elif k == 'str':
        out.append(('val', "'" + v[1] + "'"))
    elif k == 'bin':
        out.append(('val', '"' + v[1] + '"'))
    elif k == 'enum':
        out.append(('val', '.' + v[1] + '.'))
    elif k == 'ref':
        out.append(('val', '#%d' % v[1]))
    elif k == 'null':
        out.append(('val', '$'))
    elif k == 'star':
        out.append(('val', '*'))
    elif k == 'agg':
        out.append(('(', '('))
        for i, x in enumerate(v[1]):
            if i:
                out.append((',', ','))
            value_tokens(x, out)
        out.append((')', ')'))
    elif k == 'typed':
        out.append(('kw', v[1]))
        out.append(('(', '('))
        value_tokens(v[2], out)
        out.append((')', ')'))
    elif k == 'raw':
        out.append(('val', v[1]))
    else:
        raise ValueError(v)


def record_tokens(kw, vals, out):
    out.append(('kw', kw))
    out.append(('(', '('))
    for i, x in enumerate(vals):
        if i:
            out.append((',', ','))
        value_tokens(x, out)
    out.append((')', ')'))


def inst_tokens(inst):
    out = []
    if getattr(inst, 'state', None):
        out.append(('state', inst.state))
    out.append(('id', '#%d' % inst.id))
    out.append(('=', '='))
    if inst.complex:
        out.append(('(', '('))
        for kw, vals in inst.parts:
            record_tokens(kw, vals, out)
        out.append((')', ')'))
    else:
        record_tokens(inst.parts[0][0], inst.parts[0][1], out)
    out.append((';', ';'))
    return out


VARIANTS = ('compact', 'spaced', 'lines', 'cmt_structural', 'cmt_before_top', 'zero_ids')   # + 'cmt_between': comments only on their own lines between instances

COMMENTS_BENIGN = ['/* c */', '/**/', '/*\n multi\n line */', '/* * / */', '/* a, b */', '/*/ banner /*/', '/***/', '/*/*/', '/* ** // */']
COMMENTS_HOSTILE = ["/* it's */", '/* ; */', '/* #99 = X(1); */', '/* ( */', '/* ) */', '/* ENDSEC; */']
COMMENTS = COMMENTS_BENIGN + COMMENTS_HOSTILE
# inside an instance's parameter list (and before its ';') a comment containing ' or ; derails the first-pass
# scanner (open finding C01 'comment containing apostrophe/semicolon inside an instance'): probes only.
COMMENTS_INSIDE = COMMENTS_BENIGN + ['/* ( */', '/* ) */', '/* #99 = X(1) */']


def join_tokens(toks, variant, rng):
    """Join one instance's tokens.  Variants differ only in inter-token whitespace / comments.

    cmt_structural: comments around '#id', '=', the record keyword and before ';' of any instance.
    cmt_before_top: additionally a comment directly before a top-level attribute value of a simple
                    (internally mapped) instance - the placement the repository's own comments.p21 test uses.
    Comments after a value, inside aggregates / typed selects, or between the parts of a complex
    instance are open finding C01 'comment inside parameter list' and are exercised by probes only.
    """
    o = []
    n = len(toks)
    depth = 0
    is_complex = n > 3 and toks[2][0] == '(' or (toks[0][0] == 'state' and n > 4 and toks[3][0] == '(')
    for i, (cls, txt) in enumerate(toks):
        nxt = toks[i + 1][0] if i + 1 < n else None
        if variant == 'zero_ids' and txt[:1] == '#' and txt[1:].isdigit() and cls in ('id', 'val'):
            # instance names with leading zeros (fixed-width numbering): #0010 names instance 10, in definitions and references
            txt = '#' + '0' * rng.choice((1, 2, 3, 4 - min(4, len(txt) - 1))) + txt[1:]
        o.append(txt)
        if cls == '(':
            depth += 1
        elif cls == ')':
            depth -= 1
        if nxt is None:
            break
        if cls == 'state':
            continue
        if variant == 'compact':
            continue
        if variant == 'spaced':
            o.append(' ')
        elif variant == 'lines':
            o.append('\n')
        elif variant in ('cmt_structural', 'cmt_before_top'):
            if depth == 0 and cls in ('id', '=') and rng.random() < .5:
                o.append(' ' + rng.choice(COMMENTS) + ' ')
            elif depth == 0 and nxt == ';' and rng.random() < .5:
                o.append(' ' + rng.choice(COMMENTS_INSIDE) + ' ')
            elif variant == 'cmt_before_top' and not is_complex and depth == 1 and cls in ('(', ',') and nxt in ('val', 'kw', '(') \
                    and rng.random() < .5:
                o.append(rng.choice(COMMENTS_INSIDE) + rng.choice(['', ' ']))
    return ''.join(o)


def render(pop, variant='compact', rng=None, kind='ISO-10303-21', header_variant=None):
    rng = rng or random.Random(0)
    hv = header_variant or ('compact' if variant.startswith('cmt') else variant)
    o = [kind + ';', 'HEADER;']
    for kw, vals in pop.header:
        t = []
        record_tokens(kw, vals, t)
        t.append((';', ';'))
        o.append(join_tokens(t, hv, rng))
    o.append('ENDSEC;')
    o.append('DATA;')
    for inst in pop.insts:
        o.append(join_tokens(inst_tokens(inst), variant, rng))
        if variant.startswith('cmt') and rng.random() < (.6 if variant == 'cmt_between' else .3):
            o.append(rng.choice(COMMENTS))
    o.append('ENDSEC;')
    o.append('END-' + kind + ';')
    return '\n'.join(o) + '\n'
