"""C04: deterministic multi-schema INTERFACE matrix (USE FROM / REFERENCE FROM between the schemas of one file).

vf/c04_faults.multi() makes a few random two/three schema files whose first schema imports from the others.  What the
resolver does with an interface clause depends on much more than that: how many hops an item travels (a USE'd item can
be handed on, so `top: USE FROM mid (x)` may have to resolve `mid: USE FROM low (x)` first - or find it already done),
how many items go the same way, whether a hop is a partial list, a renaming list or the whole schema, whether the graph
is a chain, a diamond or a cycle - and on the ORDER in which the schemas are taken out of the model dictionary, which is
the hash order of the schema NAMES and has nothing to do with the file.  This module enumerates that space:

  shape      chain of 2, 3, 4 schemas; diamond (top <- left, right <- bottom; same or different items by either side);
             fan (one schema importing from two unrelated ones); cycles of 2 and 3 schemas (partial and whole-schema,
             with items handed on around the cycle)
  link       USE partial / USE partial with AS renames / USE whole schema / (last hop only) REFERENCE partial /
             REFERENCE renamed / REFERENCE whole schema          [an item REFERENCE'd into a schema cannot be handed on]
  items      1, 2, 3 (and more) per list, of every kind that is legal in the clause: entity, defined type, enumeration,
             select (USE and REFERENCE), function, procedure, constant (REFERENCE)
  naming     each shape is instantiated with PERMUTATIONS of a pool of schema names over the roles and with the schemas
             written in several file orders, so that every dictionary visiting order of the roles occurs

Every importing schema really uses what it imports (attribute types, a SUBTYPE OF an imported entity, DERIVE calling an
imported function on an imported constant, a function calling an imported procedure).  Each such file is valid EXPRESS by
construction (visibility is computed here by a fixpoint over the interface graph and the spec is asserted against it).

Faulted partners (same shapes, same naming matrix) break exactly one hop, so that an item named in a later list cannot be
found: the item is replaced by an identifier declared nowhere in the first / a middle / the last hop, a middle schema does
not hand on one of the items asked from it, or a middle schema only REFERENCEs what the next one asks it for (with a
whole-schema last hop the last schema names no item; it then USES the name it can no longer see).

Open findings of the unchanged tree in this space, each shown by a fixed probe that goes through the same oracle:
  * probe_ref_all: `REFERENCE FROM mid;` does not show what mid has USE'd (valid file rejected).  While the probe is
    rejected the matrix lets a whole-schema REFERENCE importer use only what the source DECLARES (solve(sees_used=False)).
  * probe_use_all_over_reference: `USE FROM mid;` shows what mid only REFERENCEs (invalid file accepted).  While the probe
    is accepted the faulted shapes of that kind (leaks_reference) are left to the probe.
  * PROBE_REF_CONSTANT: a constant in a partial REFERENCE list crashes the two code generators now and then (layout
    dependent) - masked statically, see MASK_REF_NON_TYPE.
"""
import itertools
import os
import random

FRESH = 'zz_nodef_i'

# name pools for the schemas: a permutation of a pool over the roles fixes which role the dictionary walk meets first
POOLS = [
    ['top', 'mid', 'low', 'base'],
    ['s1', 's2', 's3', 's4'],
    ['alpha', 'beta', 'gamma', 'delta'],
    ['geometry_schema', 'topology_schema', 'support_resource_schema', 'measure_schema'],
]

# Open finding (probe_ref_constant): a partial REFERENCE list naming a CONSTANT, or renaming a function / procedure / constant,
# makes both code generators treat the Rename's object as an entity (addUseRefNames) - they read garbage and may die, which
# depends on the memory layout.  The matrix stays out: constants are interfaced by whole-schema REFERENCE only and functions /
# procedures are never renamed.  Set to False once the generators are repaired (VERIF_C04_IFACE_UNMASK=1 lifts the mask for a
# trial run against a repaired tree).
MASK_REF_NON_TYPE = os.environ.get('VERIF_C04_IFACE_UNMASK') != '1'

USE_KINDS = ('entity', 'deftype', 'enum', 'select')
REF_ONLY_KINDS = ('function', 'procedure', 'constant')


# ------------------------------------------------------------------------------------------------------------ spec
class Sch(object):
    """One schema of a spec: role name, which item families it declares, its interface clauses."""

    def __init__(self, role, decl=(), iface=()):
        self.role = role
        self.decl = list(decl)            # subset of DECL_ORDER
        self.iface = [list(x) for x in iface]  # [kw 'USE'|'REFERENCE', source role, None | [(old, new|None), ...]]


DECL_ORDER = ('ea', 'eb', 'ec', 'tl', 'tc', 'ts', 'f', 'p', 'k')
_KIND = dict(ea='entity', eb='entity', ec='entity', tl='deftype', tc='enum', ts='select', f='function', p='procedure', k='constant')


def nm(item, role):
    """name of the item family `item` declared by schema `role`"""
    return '%s_%s' % (item, role)


def _decl_lines(s):
    r = s.role
    o = []
    if 'k' in s.decl:
        o += ['CONSTANT', '  %s : INTEGER := 1;' % nm('k', r), 'END_CONSTANT;']
    if 'tl' in s.decl:
        o += ['TYPE %s = STRING;' % nm('tl', r), 'END_TYPE;']
    if 'tc' in s.decl:
        o += ['TYPE %s = ENUMERATION OF' % nm('tc', r), '  (%s,' % nm('i1', r), '   %s);' % nm('i2', r), 'END_TYPE;']
    if 'ts' in s.decl:
        # members are entities of the same schema (reached implicitly by whoever imports only the select)
        mem = [nm(e, r) for e in ('ea', 'eb') if e in s.decl]
        o += ['TYPE %s = SELECT' % nm('ts', r), '  (%s);' % ', '.join(mem), 'END_TYPE;']
    for e, a, t in (('ea', 'n', 'INTEGER'), ('eb', 's', 'STRING'), ('ec', 'b', 'BOOLEAN')):
        if e in s.decl:
            o += ['ENTITY %s;' % nm(e, r), '  %s_%s : %s;' % (a, r, t), 'END_ENTITY;']
    if 'f' in s.decl:
        o += ['FUNCTION %s(q : INTEGER) : INTEGER;' % nm('f', r), '  RETURN (q + 1);', 'END_FUNCTION;']
    if 'p' in s.decl:
        o += ['PROCEDURE %s(VAR i : INTEGER);' % nm('p', r), '  i := i + 1;', 'END_PROCEDURE;']
    return o


class Spec(object):
    def __init__(self, family, shape, schemas, fault=None, note=''):
        self.family, self.shape, self.schemas = family, shape, schemas
        self.fault = fault            # None | fault class text (then exactly one hop is broken)
        self.note = note
        self.force = {}               # role -> {name: kind} used although not visible (faulted specs only)
        self.roles = [s.role for s in schemas]
        self.by = dict((s.role, s) for s in schemas)

    # ---- visibility: fixpoint over the interface graph
    def solve(self, sees_used=True):
        """-> (exports, visible, unresolved): exports[role] name -> kind (declared or USE'd in: may be handed on),
        visible[role] name -> kind for imported names only, unresolved = [(role, clause index, old name)].
        sees_used=False: `REFERENCE FROM s;` is taken to show only what s DECLARES, not what s has USE'd (ISO 10303-11 11.2
        says "declared in or used in"; the unchanged tree does not look there - open finding, see probe_ref_all)"""
        exports = {}
        declared = {}
        for s in self.schemas:
            d = {}
            for it in s.decl:
                d[nm(it, s.role)] = _KIND[it]
            exports[s.role] = d
            declared[s.role] = dict(d)
        visible = dict((r, {}) for r in self.roles)
        changed = True
        while changed:
            changed = False
            for s in self.schemas:
                for kw, src, items in s.iface:
                    if src not in exports:
                        continue
                    got = {}
                    if items is None:
                        for n, k in (exports[src] if kw == 'USE' or sees_used else declared[src]).items():
                            if kw == 'REFERENCE' or k in USE_KINDS:
                                got[n] = k
                    else:
                        for old, new in items:
                            if old in exports[src]:
                                got[new or old] = exports[src][old]
                    for n, k in got.items():
                        if n in exports[s.role] and n not in visible[s.role]:
                            continue          # own declaration
                        if n not in visible[s.role]:
                            visible[s.role][n] = k
                            changed = True
                        if kw == 'USE' and n not in exports[s.role]:
                            exports[s.role][n] = k
                            changed = True
        unresolved = []
        for s in self.schemas:
            for ci, (kw, src, items) in enumerate(s.iface):
                if src not in exports:
                    unresolved.append((s.role, ci, src))
                elif items is not None:
                    for old, new in items:
                        if old not in exports[src] or (kw == 'USE' and exports[src][old] not in USE_KINDS):
                            unresolved.append((s.role, ci, old))
        return exports, visible, unresolved

    # ---- text
    def render(self, names, order, sees_used=True):
        """names: role -> schema name; order: roles in file order"""
        exports, visible, unresolved = self.solve(sees_used)
        assert bool(unresolved or self.force) == bool(self.fault), (self.family, self.shape, self.fault, unresolved)
        for r, extra in self.force.items():
            for n, k in extra.items():
                assert n not in visible[r] and n not in exports[r], (self.shape, r, n)
                visible[r][n] = k
        out = []
        for role in order:
            s = self.by[role]
            if out:
                out.append('')
            out.append('SCHEMA %s;' % names[role])
            for kw, src, items in s.iface:
                sn = names.get(src, src)
                if items is None:
                    out.append('%s FROM %s;' % (kw, sn))
                else:
                    out.append('%s FROM %s (%s);' % (kw, sn, ', '.join('%s AS %s' % (o, n) if n else o for o, n in items)))
            out += _decl_lines(s)
            out += self._usage(s, visible[role])
            out.append('END_SCHEMA;')
        return '\n'.join(out) + '\n'

    def _usage(self, s, vis):
        """declarations of schema s that use every imported name"""
        r = s.role
        if not vis:
            return []
        names = sorted(vis)
        ents = [n for n in names if vis[n] == 'entity']
        attrs, derive, o = [], [], []
        for i, n in enumerate(names):
            k = vis[n]
            if k == 'entity':
                attrs.append('  a%d_%s : OPTIONAL %s;' % (i, r, n))
            elif k in ('deftype', 'select'):
                attrs.append('  a%d_%s : %s;' % (i, r, n))
            elif k == 'enum':
                attrs.append('  a%d_%s : SET [0:?] OF %s;' % (i, r, n))
        funs = [n for n in names if vis[n] == 'function']
        consts = [n for n in names if vis[n] == 'constant']
        procs = [n for n in names if vis[n] == 'procedure']
        for i, f in enumerate(funs):
            derive.append('  d%d_%s : INTEGER := %s(%s);' % (i, r, f, consts[0] if consts else '1'))
        if consts and not funs:
            derive.append('  dk_%s : INTEGER := %s + 1;' % (r, consts[0]))
        if procs:
            o += ['FUNCTION g_%s(q : INTEGER) : INTEGER;' % r, 'LOCAL', '  t : INTEGER := 0;', 'END_LOCAL;', '  t := q;']
            o += ['  %s(t);' % p for p in procs]
            o += ['  RETURN (t);', 'END_FUNCTION;']
            derive.append('  dp_%s : INTEGER := g_%s(2);' % (r, r))
        if not attrs:
            attrs.append('  a_%s : INTEGER;' % r)
        o += ['ENTITY u_%s;' % r] + attrs
        if derive:
            o += ['DERIVE'] + derive
        o.append('END_ENTITY;')
        if ents:
            o += ['ENTITY v_%s' % r, '  SUBTYPE OF (%s);' % ents[0], '  w_%s : REAL;' % r, 'END_ENTITY;']
        return o


# ------------------------------------------------------------------------------------------------------------ shapes
# what travels: item families of the declaring schema (first = always there); mixes rotate over the kinds
USE_MIXES = [
    ['ea'], ['tl'], ['tc'], ['ts'],
    ['ea', 'eb'], ['ea', 'tl'], ['tl', 'tc'], ['eb', 'ts'], ['tc', 'ea'],
    ['ea', 'eb', 'ec'], ['ea', 'tl', 'tc'], ['ts', 'tc', 'eb'], ['tl', 'ea', 'ts'],
    ['ea', 'eb', 'ec', 'tl', 'tc'],
]
REF_EXTRA = [[], ['f'], ['k'], ['f', 'k'], ['p'], ['f', 'p', 'k']]

LINKS_MID = ('use', 'use_as', 'use_all')
LINKS_TOP = ('use', 'use_as', 'use_all', 'ref', 'ref_as', 'ref_all')


def _decls_for(mix):
    d = set(mix)
    if 'ts' in d:
        d.add('ea')           # the select needs a member
    return [x for x in DECL_ORDER if x in d]


def chain(n, links, mix, extra=()):
    """roles c0 (declares) <- c1 <- ... <- c(n-1); links[i-1] is the style of the clause in c(i).
    mix: item families that travel the whole way; extra: function/procedure/constant families REFERENCE'd by the last
    schema directly from c0 (they cannot be handed on)."""
    assert len(links) == n - 1
    if MASK_REF_NON_TYPE and not (n == 2 and links[0] == 'ref_all'):
        extra = [x for x in extra if x != 'k']
    roles = ['c%d' % i for i in range(n)]
    schemas = [Sch(roles[0], _decls_for(list(mix) + list(extra)))]
    cur = [nm(it, roles[0]) for it in mix]        # names as seen in the previous schema
    for i in range(1, n):
        st = links[i - 1]
        kw = 'REFERENCE' if st.startswith('ref') else 'USE'
        if st.endswith('_all'):
            items = None
        elif st.endswith('_as'):
            new = ['%s_r%d' % (c, i) for c in cur]
            items = list(zip(cur, new))
            cur = new
        else:
            items = [(c, None) for c in cur]
        s = Sch(roles[i], ['ec'] if i < n - 1 and 'ec' not in mix else [], [[kw, roles[i - 1], items]])
        schemas.append(s)
    if extra:
        top = schemas[-1]
        if n == 2 and top.iface[0][0] == 'REFERENCE' and top.iface[0][2] is not None:
            top.iface[0][2] += [(nm(it, roles[0]), None) for it in extra]
        elif not (n == 2 and top.iface[0][0] == 'REFERENCE'):
            top.iface.append(['REFERENCE', roles[0], [(nm(it, roles[0]), None) for it in extra]])
    shape = 'chain of %d: %s; %d item%s (%s)%s' % (n, ' <- '.join(links), len(mix), '' if len(mix) == 1 else 's',
                                                    '+'.join(_KIND[m] for m in mix), ' + REFERENCE of ' + '+'.join(_KIND[m] for m in extra) if extra else '')
    return Spec('chain', shape, schemas)


def diamond(left, right, top_l, top_r, mix_l, mix_r):
    """bottom declares; left / right import mix_l / mix_r from bottom by style left / right; top imports them from
    left and right by style top_l / top_r (mix_l and mix_r may overlap: the same item reached by two routes)."""
    b = Sch('b', _decls_for(list(mix_l) + list(mix_r)))

    def side(role, st, mix, tag):
        cur = [nm(it, 'b') for it in mix]
        if st.endswith('_all'):
            return Sch(role, [], [['USE', 'b', None]]), cur
        if st.endswith('_as'):
            new = ['%s_%s' % (c, tag) for c in cur]
            return Sch(role, [], [['USE', 'b', list(zip(cur, new))]]), new
        return Sch(role, [], [['USE', 'b', [(c, None) for c in cur]]]), cur
    l, cur_l = side('l', left, mix_l, 'vl')
    r, cur_r = side('r', right, mix_r, 'vr')
    ifc = []
    for role, st, cur in (('l', top_l, cur_l), ('r', top_r, cur_r)):
        kw = 'REFERENCE' if st.startswith('ref') else 'USE'
        if st.endswith('_all'):
            ifc.append([kw, role, None])
        elif st.endswith('_as'):
            ifc.append([kw, role, [(c, '%s_t%s' % (c, role)) for c in cur]])
        else:
            ifc.append([kw, role, [(c, None) for c in cur]])
    t = Sch('t', [], ifc)
    shape = 'diamond: left %s (%s), right %s (%s), top %s / %s' % (left, '+'.join(_KIND[m] for m in mix_l), right,
                                                                   '+'.join(_KIND[m] for m in mix_r), top_l, top_r)
    return Spec('diamond', shape, [b, l, r, t])


def fan(st_a, st_b, mix_a, mix_b, extra_a=(), extra_b=()):
    """top imports from two unrelated schemas a and b (each declares its own items)"""
    if MASK_REF_NON_TYPE:
        extra_a = [x for x in extra_a if x != 'k' or st_a == 'ref_all']
        extra_b = [x for x in extra_b if x != 'k' or st_b == 'ref_all']
    a = Sch('a', _decls_for(list(mix_a) + list(extra_a)))
    b = Sch('b', _decls_for(list(mix_b) + list(extra_b)))
    ifc = []
    for role, st, mix, extra in (('a', st_a, mix_a, extra_a), ('b', st_b, mix_b, extra_b)):
        kw = 'REFERENCE' if st.startswith('ref') else 'USE'
        its = [nm(i, role) for i in mix] + ([nm(i, role) for i in extra] if kw == 'REFERENCE' else [])
        plain = set(nm(i, role) for i in extra) if MASK_REF_NON_TYPE else set()
        if st.endswith('_all'):
            ifc.append([kw, role, None])
        elif st.endswith('_as'):
            ifc.append([kw, role, [(c, None if c in plain else c + '_rt') for c in its]])
        else:
            ifc.append([kw, role, [(c, None) for c in its]])
        if extra and kw == 'USE':
            ifc.append(['REFERENCE', role, [(nm(i, role), None) for i in extra]])
    shape = 'fan: %s (%s) and %s (%s)' % (st_a, '+'.join(_KIND[m] for m in list(mix_a) + list(extra_a)), st_b,
                                          '+'.join(_KIND[m] for m in list(mix_b) + list(extra_b)))
    return Spec('fan', shape, [a, b, Sch('t', [], ifc)])


def cycle(n, style, mix, hops=1):
    """n schemas y0..y(n-1); y(i) declares its own items `mix` and imports from y(i+1 mod n) by `style`:
    hops = 1: the items y(i+1) declares; hops = 2 (partial styles): also the items y(i+1) itself imported from y(i+2)
    (handed on around the cycle; with n = 2 that would be the importer's own items, so hops = 2 needs n >= 3)."""
    roles = ['y%d' % i for i in range(n)]
    kw = 'REFERENCE' if style.startswith('ref') else 'USE'
    ren = style.endswith('_as')
    assert hops == 1 or (n >= 3 and kw == 'USE' and not style.endswith('_all'))
    schemas = []
    for i, r in enumerate(roles):
        src = roles[(i + 1) % n]
        if style.endswith('_all'):
            items = None
        else:
            items = [(nm(it, src), nm(it, src) + '_c' if ren else None) for it in mix]
            if hops == 2:
                # what src itself imported from the schema after it, under the name it has in src
                src2 = roles[(i + 2) % n]
                seen = [nm(it, src2) + ('_c' if ren else '') for it in mix]
                items += [(c, c + '_d' if ren else None) for c in seen]
        schemas.append(Sch(r, _decls_for(mix), [[kw, src, items]]))
    shape = 'cycle of %d: %s, %s, %d hop%s' % (n, style, '+'.join(_KIND[m] for m in mix), hops, '' if hops == 1 else 's')
    return Spec('cycle', shape, schemas)


# ------------------------------------------------------------------------------------------------------------ faults
def break_chain(n, links, mix, how, at):
    """A chain with ONE hop broken.
    how = 'fresh': item `at[1]` of the list in schema c(at[0]) names an identifier declared nowhere
          'not handed on': schema c(at[0]) (a middle one) leaves item at[1] out of its list; the next schema asks for it
          'only referenced': schema c(at[0]) (a middle one) takes the items by REFERENCE; the next schema asks for them"""
    sp = chain(n, links, mix)
    hop, k = at
    s = sp.schemas[hop]
    items = s.iface[0][2]
    top = sp.roles[-1]
    before = dict(sp.solve()[1][top])
    if how == 'fresh':
        old, new = items[k]
        items[k] = (FRESH, new)     # a middle hop broken this way also leaves the next schema asking for a name it cannot get
        cls = 'undefined item in %s list' % s.iface[0][0]
        var = '%s hop of %d' % ('last' if hop == n - 1 else ('first' if hop == 1 else 'middle'), n - 1)
    elif how == 'not handed on':
        assert 0 < hop < n - 1 and len(items) > 1
        del items[k]
        cls = 'item asked from a schema that does not hand it on'
        var = 'left out of the list of hop %d of %d' % (hop, n - 1)
    elif how == 'only referenced':
        assert 0 < hop < n - 1
        s.iface[0][0] = 'REFERENCE'
        cls = 'item asked from a schema that only REFERENCEs it'
        var = 'hop %d of %d by REFERENCE' % (hop, n - 1)
    else:
        raise ValueError(how)
    if links[-1].endswith('_all'):
        # the last schema interfaces the whole of the one before it: it names no item, but it uses what it would have seen
        after = sp.solve()[1][top]
        sp.force[top] = dict((nn, kk) for nn, kk in before.items() if nn not in after)
        assert sp.force[top], (links, how, at)
        cls += ', used through a whole-schema interface'
    sp.fault = cls
    sp.family = 'broken chain'
    sp.shape = '%s [%s: %s]' % (sp.shape, how, var)
    return sp


# ------------------------------------------------------------------------------------------------------------ cases
class Case(object):
    def __init__(self, spec, names, order, tag, sees_used=True):
        self.spec, self.names, self.order, self.tag = spec, names, order, tag
        self.text = spec.render(names, order, sees_used)
        self.fault = spec.fault

    def describe(self):
        return dict(family=self.spec.family, shape=self.spec.shape, schema_names=[self.names[r] for r in self.spec.roles],
                    roles=self.spec.roles, file_order=[self.names[r] for r in self.order], naming=self.tag)


def _orders(roles, which):
    """file orders: declaring schema first (as listed), reversed, and rotations"""
    fw = list(roles)
    out = [fw, fw[::-1]]
    for k in range(1, len(fw)):
        out.append(fw[k:] + fw[:k])
    return [out[i % len(out)] for i in which]


def instantiate(spec, pools, perm_pick=None, orders=(0, 1), each_order=True, sees_used=True):
    """Permutations of each pool over the roles (perm_pick: None = all, else a list of permutation indices) x file orders
    (each_order=False: permutation j is written in ONE of the orders, rotating)."""
    n = len(spec.roles)
    out = []
    for pi, pool in enumerate(pools):
        perms = list(itertools.permutations(pool[:n]))
        idx = range(len(perms)) if perm_pick is None else [p % len(perms) for p in perm_pick]
        for j in sorted(set(idx)):
            names = dict(zip(spec.roles, perms[j]))
            all_orders = _orders(spec.roles, orders)
            use = list(enumerate(all_orders)) if each_order else [(j % len(all_orders), all_orders[j % len(all_orders)])]
            for oi, order in use:
                out.append(Case(spec, names, order, 'pool %s.. perm %d order %d' % (pool[0], j, orders[oi]), sees_used))
    return out


def probe_ref_all():
    """Fixed file: low declares an entity and a type, mid USEs them, top says REFERENCE FROM mid; and uses both."""
    sp = chain(3, ['use', 'ref_all'], ['ea', 'tl'])
    names = dict(zip(sp.roles, ['low', 'mid', 'top']))
    return 'REFERENCE FROM a whole schema that has USEd the items', Case(sp, names, sp.roles, 'fixed')


def probe_use_all_over_reference():
    """Fixed faulted file: low declares an entity and a type, mid only REFERENCEs them, top says USE FROM mid; and uses both."""
    sp = break_chain(3, ['use', 'use_all'], ['ea', 'tl'], 'only referenced', (1, 0))
    names = dict(zip(sp.roles, ['low', 'mid', 'top']))
    return Case(sp, names, sp.roles, 'fixed')


PROBE_REF_CONSTANT = ('REFERENCE FROM list naming a constant', '''SCHEMA top;
REFERENCE FROM mid (tc_c0, k_c0);
ENTITY u_c1;
  a1_c1 : SET [0:?] OF tc_c0;
DERIVE
  dk_c1 : INTEGER := k_c0 + 1;
END_ENTITY;
END_SCHEMA;

SCHEMA mid;
CONSTANT
  k_c0 : INTEGER := 1;
END_CONSTANT;
TYPE tc_c0 = ENUMERATION OF
  (i1_c0,
   i2_c0);
END_TYPE;
END_SCHEMA;
''')


def leaks_reference(sp):
    """faulted shapes the open finding of probe_use_all_over_reference covers: the schema before the last one REFERENCEs the
    items and the last one takes them through USE FROM <whole schema>"""
    return sp.fault is not None and 'only REFERENCEs' in sp.fault and sp.schemas[-1].iface[0][0] == 'USE' and \
        sp.schemas[-1].iface[0][2] is None and sp.schemas[-2].iface[0][0] == 'REFERENCE'


def _core(sp):
    """shapes in which an item is found only by resolving another schema's still pending partial list on demand"""
    sp.core = True
    return sp


def valid_specs(tier):
    """The deterministic list of valid shapes."""
    quick = tier == 'quick'
    specs = []
    # chains of 2: every link style x item count / kind mix
    for st in LINKS_TOP:
        for mi, mix in enumerate(USE_MIXES):
            if st.endswith('_all') and mi % 3:
                continue
            if quick and st.endswith('_as') and mi % 2:
                continue
            extra = REF_EXTRA[mi % len(REF_EXTRA)] if st.startswith('ref') else (REF_EXTRA[mi % len(REF_EXTRA)] if mi % 4 == 1 else ())
            specs.append(chain(2, [st], mix, extra))
    # chains of 3: middle style x top style x (1, 2, 3 items; kinds rotate)
    k = 0
    for m in LINKS_MID:
        for t in LINKS_TOP:
            for cnt in (1, 2, 3):
                mixes = [x for x in USE_MIXES if len(x) == cnt]
                mix = mixes[k % len(mixes)]
                k += 1
                extra = REF_EXTRA[k % len(REF_EXTRA)] if (t.startswith('ref') or k % 4 == 0) else ()
                sp = chain(3, [m, t], mix, extra)
                specs.append(_core(sp) if m != 'use_all' and t in ('use', 'use_as', 'ref') else sp)
    specs.append(_core(chain(3, ['use', 'use'], USE_MIXES[-1])))
    # chains of 4
    combos = list(itertools.product(LINKS_MID, LINKS_MID, LINKS_TOP))
    for ci, (m1, m2, t) in enumerate(combos):
        cnts = (1, 2, 3) if not quick else ((2,) if ci % 2 == 0 else (3,) if ci % 4 == 1 else (1,))
        if (m1, m2, t) in (('use', 'use', 'use'), ('use', 'use_as', 'use'), ('use_as', 'use', 'ref')):
            cnts = (1, 2, 3)
        for cnt in cnts:
            mixes = [x for x in USE_MIXES if len(x) == cnt]
            sp = chain(4, [m1, m2, t], mixes[(ci + cnt) % len(mixes)])
            specs.append(_core(sp) if (m1, m2, t) == ('use', 'use', 'use') or (cnt == 2 and (m1, m2, t) in (('use', 'use_as', 'use'), ('use_as', 'use', 'ref'))) else sp)
    # diamonds
    dm = [(['ea'], ['eb']), (['ea', 'tl'], ['eb', 'tc']), (['ea', 'eb'], ['ea', 'eb']), (['ea', 'tl'], ['tl', 'eb']),
          (['ts', 'ea'], ['tc', 'eb', 'ec'])]
    k = 0
    for left in LINKS_MID:
        for right in LINKS_MID:
            for tl_, tr_ in (('use', 'use'), ('use', 'ref'), ('use_as', 'use'), ('use_all', 'use'), ('use_all', 'use_all'),
                             ('ref', 'ref_as'), ('ref_all', 'use')):
                ml, mr = dm[k % len(dm)]
                k += 1
                sp = diamond(left, right, tl_, tr_, ml, mr)
                specs.append(_core(sp) if (left, right, tl_, tr_) in (('use', 'use', 'use', 'use'), ('use', 'use_as', 'use', 'ref')) else sp)
    for ml, mr in dm[2:4]:
        specs.append(_core(diamond('use', 'use', 'use', 'use', ml, mr)))
    # fans
    k = 0
    for sa in LINKS_TOP:
        for sb in LINKS_TOP:
            ma = USE_MIXES[(4 + k) % len(USE_MIXES)]
            mb = USE_MIXES[(7 + 2 * k) % len(USE_MIXES)]
            ea = REF_EXTRA[k % len(REF_EXTRA)]
            eb = REF_EXTRA[(k + 3) % len(REF_EXTRA)]
            k += 1
            if quick and k % 2:
                continue
            specs.append(fan(sa, sb, ma, mb, ea, eb))
    # cycles
    for n in (2, 3, 4):
        for st in ('use', 'use_as', 'use_all', 'ref', 'ref_as', 'ref_all'):
            for mix in (['ea'], ['ea', 'tl'], ['ea', 'eb', 'tc']):
                specs.append(cycle(n, st, mix, 1))
        for st in ('use', 'use_as'):
            if n >= 3:
                for mix in (['ea'], ['ea', 'tl'], ['eb', 'tc', 'ea']):
                    sp = cycle(n, st, mix, 2)
                    specs.append(_core(sp) if n == 3 or (st == 'use' and len(mix) == 2) else sp)
    return specs


def fault_specs(tier):
    quick = tier == 'quick'
    specs = []
    last = ('use', 'use_as', 'ref', 'ref_as', 'use_all', 'ref_all')
    for n in (2, 3, 4):
        for li, links in enumerate(itertools.product(*([('use', 'use_as')] * (n - 2) + [last]))):
            links = list(links)
            cnts = (1, 2, 3) if n < 4 or not quick else ((li % 3) + 1,)
            for cnt in cnts:
                mixes = [x for x in USE_MIXES if len(x) == cnt]
                mix = mixes[(li + n) % len(mixes)]
                for hop in range(1, n):
                    if hop == n - 1 and links[-1].endswith('_all'):
                        continue
                    specs.append(break_chain(n, links, mix, 'fresh', (hop, (li + hop) % cnt)))
                for hop in range(1, n - 1):
                    if cnt > 1:
                        specs.append(break_chain(n, links, mix, 'not handed on', (hop, (li + hop) % cnt)))
                    specs.append(break_chain(n, links, mix, 'only referenced', (hop, 0)))
    return specs


def cases(seed, tier, sees_used=True, leak_masked=False):
    """-> (valid cases, faulted cases).
    Quick: every shape with ALL role permutations of one name pool (pool rotates with shape and seed) for shapes of up to 3
    schemas; shapes of 4 schemas get all 24 permutations when they are `core` (an item is reached only through another
    schema's pending partial list) and 3 seed-rotated ones otherwise (fans: 3 of 6); one file order per permutation (rotating), both for core
    shapes of up to 3.  Thorough: all permutations (shapes of 4 that are not core: every second one, 12 of 24); two file orders for shapes of
    up to 3 schemas, one rotating order for shapes of 4; core shapes with two name pools."""
    quick = tier == 'quick'
    rng = random.Random('c04iface/%d' % seed)
    vs, fs = valid_specs(tier), fault_specs(tier)
    valid, faulted = [], []
    for si, sp in enumerate(vs):
        n = len(sp.roles)
        core = getattr(sp, 'core', False)
        if quick:
            pools = [POOLS[(si + seed) % len(POOLS)]]
            pick = None if ((n <= 3 and sp.family != 'fan') or core) else [(seed + si + 7 * j) % 24 for j in range(3)]
            orders = tuple(range(n + 1))
            valid += instantiate(sp, pools, pick, orders if not (core and n <= 3) else (0, 1), each_order=core and n <= 3, sees_used=sees_used)
        else:
            pools = [POOLS[(si + seed) % len(POOLS)], POOLS[(si + seed + 1 + si // len(POOLS)) % len(POOLS)]]
            if pools[0] is pools[1]:
                pools[1] = POOLS[(POOLS.index(pools[0]) + 1) % len(POOLS)]
            if n <= 3:
                valid += instantiate(sp, pools if core else pools[:1], None, (0, 1), each_order=True, sees_used=sees_used)
            else:
                half = None if core else [(2 * j + (si + seed) % 2) for j in range(12)]
                valid += instantiate(sp, pools if core else pools[:1], half, tuple(range(n + 1)), each_order=False, sees_used=sees_used)
    for si, sp in enumerate(fs):
        n = len(sp.roles)
        if leak_masked and leaks_reference(sp):
            continue
        if quick:
            pools = [POOLS[(si + seed + 1) % len(POOLS)]]
            pick = None if n <= 2 else [rng.randrange(24) for _ in range(2)]
            faulted += instantiate(sp, pools, pick, tuple(range(n + 1)), each_order=False, sees_used=sees_used)
        else:
            pools = [POOLS[(si + seed + 1) % len(POOLS)]]
            faulted += instantiate(sp, pools, None if n <= 3 else [rng.randrange(24) for _ in range(3)], tuple(range(n + 1)),
                                   each_order=False, sees_used=sees_used)
    return valid, faulted
