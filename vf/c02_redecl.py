"""C02: fixed matrices of attribute RE-DECLARATIONS (SELF\\sup.attr : ...) to every kind of type.

The property statement lists "explicit, derived, redeclared and inverse attributes ... with the declared name, optionality
and type" per entity: the dictionary has to say for each attribute which of the four it is.  exp2cxx prints an attribute
descriptor in one of four code paths chosen by the KIND OF THE ATTRIBUTE'S TYPE (entity / named defined type / simple /
type written in place), so the registered attribute kind has to be looked at once per (re-declaration clause x type kind):

  kind_matrix('explicit')   h has one attribute per type kind, one subtype per kind re-declares exactly that attribute in
                            its explicit clause with a specialised type (EXPRESS 9.2.3.4: INTEGER of NUMBER, BOOLEAN of
                            LOGICAL, subtype of entity, defined type of its underlying type, member of select, SET of BAG,
                            narrower bounds, UNIQUE, not OPTIONAL);  further subtypes re-declare an attribute of a
                            grand-supertype, re-declare a re-declaration, re-declare several attributes, change only
                            OPTIONAL, and re-declare below a second supertype.
  kind_matrix('derived')    the same supertype, the subtypes re-declare in the DERIVE clause; one more subtype declares a NEW
                            derived attribute of every kind of type and inverse attributes (entity / SET / BAG).

The explicit matrix contains the masked feature 'explicit_redeclaration' (open finding: the attribute LIST of an instance
of such a subtype differs) and is therefore a fixed probe, not part of the randomized workload; the derived matrix is an
ordinary extra schema.  Both go through the ordinary oracle (vf/c02_model.py compare / compare_instances).
"""
from . import model as M
from . import probes
from .probes import Probe
from .model import Schema, TypeDef, Entity, Attr, Derived, T, INT, REAL, STR, NAMED, ENT, AGG


def _types():
    return [TypeDef('label', 'simple', base=STR()), TypeDef('label2', 'simple', base=NAMED('label')),
            TypeDef('qty', 'simple', base=T('NUMBER')), TypeDef('qty2', 'simple', base=NAMED('qty')),
            TypeDef('colour', 'enum', items=['red', 'green', 'blue']),
            TypeDef('il', 'simple', base=AGG('LIST', INT(), 0, None)), TypeDef('il2', 'simple', base=NAMED('il')),
            TypeDef('sel', 'select', members=['label', 'qty', 'base']),
            TypeDef('subsel', 'select', members=['label', 'sub'])]


# (tag, type in the supertype, optional in the supertype, specialised type, optional in the re-declaration, DERIVE expression)
KINDS = [
    ('int', T('NUMBER'), False, INT(), False, '1'),
    ('real', T('NUMBER'), True, REAL(), True, '1.5'),
    ('bool', T('LOGICAL'), False, T('BOOLEAN'), False, 'TRUE'),
    ('str', STR(), True, STR(), False, "'s'"),                                   # only OPTIONAL changes
    ('deft', NAMED('label'), False, NAMED('label2'), False, "'d'"),              # named defined type
    ('defn', T('NUMBER'), False, NAMED('qty2'), False, '2'),                     # simple -> renamed defined type
    ('enum', NAMED('colour'), True, NAMED('colour'), False, 'red'),
    ('selm', NAMED('sel'), False, NAMED('label'), False, "'m'"),                 # select -> one of its members
    ('sels', NAMED('sel'), True, NAMED('subsel'), True, '?'),                    # select -> select of specialised members
    ('ent', ENT('base'), False, ENT('sub'), False, '?'),
    ('dagg', NAMED('il'), False, NAMED('il2'), False, '[1]'),                    # named aggregate
    ('list', AGG('LIST', ENT('base'), 0, None), False, AGG('LIST', ENT('sub'), 1, None), False, '[]'),
    ('ulist', AGG('LIST', T('NUMBER'), 0, 9), True, AGG('LIST', INT(), 1, 4, unique=True), True, '[1]'),
    ('set', AGG('BAG', T('NUMBER'), 0, None), False, AGG('SET', INT(), 0, 5), False, '[]'),
    ('bag', AGG('BAG', NAMED('label'), 0, None), False, AGG('BAG', NAMED('label2'), 1, 3), False, "['b']"),
    ('arr', AGG('ARRAY', T('NUMBER'), 1, 3, optional=True), False, AGG('ARRAY', INT(), 1, 3), False, '[1, 2, 3]'),
    ('nest', AGG('LIST', AGG('LIST', T('NUMBER'), 0, None), 0, None), False, AGG('LIST', AGG('LIST', INT(), 1, 2), 1, 2), False, '[[1]]'),
    ('lsel', AGG('SET', NAMED('sel'), 0, None), True, AGG('SET', NAMED('subsel'), 0, 2), True, '[]'),
]


def kind_matrix(clause, name):
    """clause 'explicit' | 'derived'."""
    s = Schema(name, _types())
    s.entities.append(Entity('base', attrs=[Attr('b0', INT(), True)]))
    s.entities.append(Entity('sub', supers=['base'], attrs=[Attr('s0', INT(), True)]))
    s.entities.append(Entity('h', attrs=[Attr('a_' + k, t0, o0) for k, t0, o0, _t1, _o1, _x in KINDS] + [Attr('tail', INT(), True)]))

    def redecl(ent, owner, k, t1, o1, x):
        if clause == 'explicit':
            ent.attrs.append(Attr('SELF\\%s.a_%s' % (owner, k), t1, o1))
        else:
            ent.derived.append(Derived('a_' + k, t1, x, redeclares=(owner, 'a_' + k)))

    for n, (k, _t0, _o0, t1, o1, x) in enumerate(KINDS):
        e = Entity('r_' + k, supers=['h'])
        redecl(e, 'h', k, t1, o1, x)
        e.attrs.append(Attr('own_' + k, INT(), True))
        # UNIQUE over the re-declared attribute (every other kind; alternately alone / jointly with the own attribute,
        # labelled / unlabelled): the flag belongs to the descriptor of the RE-DECLARATION in r_<k>, h's stays not unique
        if n % 2 == 0:
            e.unique.append(('u_' + k if n % 4 == 0 else None, ['a_' + k] + (['own_' + k] if n % 3 == 0 else [])))
        else:
            e.unique.append((None if n % 4 == 1 else 'u_' + k, ['own_' + k]))
        s.entities.append(e)
    kd = dict((k[0], k) for k in KINDS)
    # attribute of a grand-supertype, re-declared two levels down (in-place aggregate, entity, simple)
    s.entities.append(Entity('mid', supers=['h'], attrs=[Attr('m0', REAL(), True)]))
    g = Entity('low', supers=['mid'])
    for k in ('set', 'ent', 'int'):
        redecl(g, 'h', k, kd[k][3], kd[k][4], kd[k][5])
    g.attrs.append(Attr('l0', STR(), True))
    s.entities.append(g)
    # several re-declarations in one entity, written in another order than in the supertype
    e = Entity('many', supers=['h'], attrs=[Attr('first', INT(), True)])
    for k in ('arr', 'deft', 'list', 'enum', 'bool'):
        redecl(e, 'h', k, kd[k][3], kd[k][4], kd[k][5])
    e.attrs.append(Attr('last', INT(), True))
    e.unique += [('um', ['a_deft', 'first']), (None, ['a_list']), ('um2', ['tail', 'last'])]
    s.entities.append(e)
    if clause == 'explicit':
        # a re-declaration re-declared again one level further down (explicit, then explicit; explicit, then derived)
        e = Entity('again', supers=['r_list'], attrs=[Attr('SELF\\r_list.a_list', AGG('LIST', ENT('sub'), 2, 3, unique=True), False)])
        s.entities.append(e)
        e = Entity('again_d', supers=['r_ent'], derived=[Derived('a_ent', ENT('sub'), '?', redeclares=('h', 'a_ent'))])
        s.entities.append(e)
    # re-declaration of an attribute that comes from the SECOND supertype
    s.entities.append(Entity('side', attrs=[Attr('sd0', INT(), True)]))
    e = Entity('two', supers=['side', 'h'])
    for k in ('bag', 'real'):
        redecl(e, 'h', k, kd[k][3], kd[k][4], kd[k][5])
    e.attrs.append(Attr('t0', INT(), True))
    s.entities.append(e)
    if clause == 'derived':
        # NEW derived attributes (no re-declaration) of every kind of type, and inverse attributes of both forms beside them
        e = Entity('newd', supers=['h'], derived=[Derived('n_' + k, t1, x) for k, _t0, _o0, t1, _o1, x in KINDS])
        s.entities.append(e)
        s.entities.append(Entity('user', attrs=[Attr('one', ENT('newd'), True), Attr('some', AGG('LIST', ENT('newd'), 0, None), True)]))
        e.inverse.append(M.Inverse('used_by', 'user', 'one'))
        e.inverse.append(M.Inverse('used_in', 'user', 'some', 'SET', 0, None))
        e.inverse.append(M.Inverse('used_bag', 'user', 'one', 'BAG', 1, 3))
    s.tags.add('re-declaration matrix:' + clause)
    return s


def _p_explicit_matrix():
    return kind_matrix('explicit', 'pr_c02xm'), []


probes.register('C02', Probe('explicit re-declaration (SELF\\sup.attr) to every kind of type', _p_explicit_matrix,
                             masks=dict(schema=['explicit_redeclaration'])))


def derived_matrix():
    return kind_matrix('derived', 'xrd')
