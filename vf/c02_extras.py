"""C02's own schemas: naming and inheritance shapes the shared generator does not produce, a 'type zoo', and the
local masks that keep the randomized workload out of the sub-space of open findings (each mask has a probe in
vf/c02_probes.py that exercises exactly the masked shape through the same oracle).
"""
import random
import re
from . import model as M
from .model import Schema, TypeDef, Entity, Attr, Derived, Inverse, T, INT, REAL, STR, NAMED, ENT, AGG

# local masks (features of schemas, applied by demask() to every randomized / extra schema)
LOCAL_MASKS = ['redeclared_derived_in_diamond']


def walk_types(schema):
    """Every model type expression that is written somewhere in the schema (attribute domains, defined type bases)."""
    for td in schema.types:
        if td.kind == 'simple':
            yield td.base
    for e in schema.entities:
        for a in e.attrs:
            yield a.type
        for d in e.derived:
            yield d.type


def demask(schema):
    """Rewrite the shapes of open findings into their nearest harmless neighbour (documented masks)."""
    for e, d in diamond_redeclared(schema):          # mask redeclared_derived_in_diamond: keep the attribute explicit
        e.derived.remove(d)
    return schema


def diamond_redeclared(schema):
    """[(entity, Derived)]: re-declarations as derived of an attribute whose owner is reached along two supertype
    paths by some entity that also inherits the re-declaration."""
    out = []
    for e in schema.entities:
        for d in e.derived:
            if not d.redeclares:
                continue
            owner = d.redeclares[0]
            hit = False
            for x in schema.entities:
                if not schema.is_a(x.name, e.name):
                    continue
                for y in [x.name] + schema.ancestors(x.name):
                    sups = schema.entity(y).supers
                    if len(sups) > 1 and sum(1 for sp in sups if schema.is_a(sp, owner)) > 1:
                        hit = True
            if hit:
                out.append((e, d))
    return out


# ----------------------------------------------------------------------------------------------- naming
CXX_WORDS = ['class', 'namespace', 'template', 'operator', 'int', 'long', 'double', 'char', 'union', 'struct', 'public', 'private',
             'virtual', 'this', 'new', 'delete', 'typedef', 'static', 'const', 'void', 'switch', 'default', 'break', 'goto', 'try',
             'catch', 'throw', 'friend', 'inline', 'signed', 'short', 'volatile', 'auto', 'bool', 'nullptr', 'enum', 'extern',
             'explicit', 'mutable', 'using', 'typename', 'bitand', 'bitor', 'compl', 'and_eq', 'not_eq', 'register', 'main',
             'null', 'errno', 'stdin', 'assert', 'std', 'registry', 'sdai', 'severity']
P21_WORDS = ['data', 'header', 'endsec', 'iso_10303_21', 'end_iso_10303_21', 'file_name', 'file_description', 'file_schema',
             'section_language', 'file_population', 'step', 'scope', 'endscope']


def naming_keywords(rng, name, words, tag):
    """Entities, attributes, defined types and enumeration items named like C++ / Part 21 keywords."""
    w = list(words)
    rng.shuffle(w)
    s = Schema(name)
    tnames = w[0:3]
    items = w[3:7]
    enames = w[7:11]
    anames = w[11:19]
    s.types.append(TypeDef(tnames[0], 'simple', base=STR()))
    s.types.append(TypeDef(tnames[1], 'enum', items=items))
    s.types.append(TypeDef(tnames[2], 'select', members=[tnames[0], enames[0]]))
    kinds = [INT(), STR(), NAMED(tnames[0]), NAMED(tnames[1]), NAMED(tnames[2]), ENT(enames[1]), AGG('LIST', INT(), 0, None), T('BOOLEAN')]
    ai = 0
    for i, en in enumerate(enames):
        e = Entity(en)
        if i == 2:
            e.supers = [enames[0]]
        if i == 3:
            e.supers = [enames[2]]
        for _ in range(2):
            e.attrs.append(Attr(anames[ai], kinds[ai], optional=(ai % 3 == 0)))
            ai += 1
        s.entities.append(e)
    s.tags.add(tag)
    return s


class CasedSchema(Schema):
    """Model in lower case; the EXPRESS text spells every occurrence of every identifier and keyword in a
    (deterministically) random case.  EXPRESS is case-insensitive, so the text denotes the same schema."""
    case_seed = 0

    def text(self):
        base = Schema.text(self)
        rng = random.Random('c02case/%s/%d' % (self.name, self.case_seed))
        out = []
        for i, part in enumerate(base.split("'")):
            if i % 2 == 1:           # inside a string literal
                out.append(part)
                continue

            def f(m):
                w = m.group(0)
                return rng.choice([w.lower(), w.upper(), w.capitalize(), w.swapcase(), ''.join(c.upper() if rng.random() < .5 else c.lower() for c in w)])
            out.append(re.sub(r'[A-Za-z][A-Za-z0-9_]*', f, part))
        return "'".join(out)


def naming_case(rng, name):
    """Identifiers (and keywords) written in another case at every occurrence, names that differ only by
    underscores / digits / a trailing underscore."""
    s = CasedSchema(name)
    s.case_seed = rng.randint(0, 10 ** 6)
    s.types.append(TypeDef('mylabel', 'simple', base=STR()))
    s.types.append(TypeDef('shade', 'enum', items=['darkred', 'darkred_', 'dark_red', 'dark2', 'd_ark2']))
    s.types.append(TypeDef('anyof', 'select', members=['mylabel', 'mixedcase']))
    e0 = Entity('mixedcase', attrs=[Attr('attrone', NAMED('mylabel')), Attr('attr_one', INT(), True), Attr('attrone_', NAMED('shade')),
                                    Attr('a1', REAL()), Attr('a_1', REAL(), True), Attr('a__1', AGG('SET', NAMED('mylabel'), 1, None))])
    e1 = Entity('mixed_case', supers=['mixedcase'], attrs=[Attr('x', NAMED('anyof')), Attr('x_', ENT('mixedcase'), True)],
                derived=[Derived('attr_one', INT(), '3', redeclares=('mixedcase', 'attr_one'))])
    e2 = Entity('mixed_case_', supers=['mixed_case'], attrs=[Attr('y', AGG('LIST', ENT('mixed_case'), 0, 4))])
    s.entities = [e0, e1, e2]
    s.tags.add('naming:case')
    return s


def naming_long(rng, name, n=120):
    def long(prefix, k=n):
        base = prefix + '_' + '_'.join('%s%d' % (rng.choice(['alpha', 'beta', 'gamma', 'delta']), i) for i in range(40))
        return base[:k].rstrip('_')
    s = Schema(name)
    tl, te, ts = long('tl', 90), long('te', 100), long('ts', 110)
    s.types.append(TypeDef(tl, 'simple', base=STR()))
    s.types.append(TypeDef(te, 'enum', items=[long('item_a', 80), long('item_b', 81)]))
    ea, eb = long('ea'), long('eb')
    s.types.append(TypeDef(ts, 'select', members=[tl, ea]))
    s.entities.append(Entity(ea, attrs=[Attr(long('x'), NAMED(tl)), Attr(long('y'), NAMED(te), True), Attr(long('z'), AGG('LIST', NAMED(tl), 1, 3))]))
    s.entities.append(Entity(eb, supers=[ea], attrs=[Attr(long('r'), ENT(ea)), Attr(long('s'), NAMED(ts), True), Attr(long('i'), INT())],
                             derived=[Derived(long('d'), INT(), '1')]))
    s.tags.add('naming:long')
    return s


# ----------------------------------------------------------------------------------------------- inheritance shapes
def _e(n, sup=(), k=2, abstract=False, kinds=None):
    kinds = kinds or [INT(), STR(), REAL(), T('BOOLEAN')]
    return Entity(n, supers=list(sup), abstract=abstract, attrs=[Attr('%s_a%d' % (n, j), kinds[j % len(kinds)], optional=(j == 1)) for j in range(k)])


def shape_chain(rng, name, depth=6):
    s = Schema(name)
    prev = None
    for i in range(depth):
        e = _e('c%d' % i, [prev] if prev else [], k=rng.randint(1, 3), abstract=(i == 1))
        s.entities.append(e)
        prev = e.name
    # re-declare an attribute of the ROOT (not a direct supertype) as derived three levels down, a direct one at the leaf
    s.entity('c3').derived.append(Derived('c0_a0', INT(), '5', redeclares=('c0', 'c0_a0')))
    s.entity('c%d' % (depth - 1)).derived.append(Derived('c%d_a0' % (depth - 2), INT(), '6', redeclares=('c%d' % (depth - 2), 'c%d_a0' % (depth - 2))))
    s.entity('c2').derived.append(Derived('c2_d', REAL(), '1.5'))
    s.tags.add('shape:chain')
    return s


def shape_diamond(rng, name):
    s = Schema(name)
    s.entities += [_e('a', k=2), _e('b', ['a'], k=2), _e('c', ['a'], k=1), _e('d', ['b', 'c'], k=2), _e('e', ['d'], k=1), _e('f', ['c', 'b'], k=1)]
    s.tags.add('shape:diamond')
    return s


def shape_two_roots(rng, name):
    s = Schema(name)
    s.entities += [_e('r0', k=1), _e('r1', k=2), _e('r2', k=1), _e('a', ['r0'], k=1), _e('b', ['r1'], k=1),
                   _e('d', ['a', 'b'], k=2), _e('t', ['r0', 'r1', 'r2'], k=1), _e('u', ['d'], k=1), _e('v', ['r2', 'a'], k=1)]
    s.tags.add('shape:two-roots')
    return s


def shape_nested_multi(rng, name):
    """Multiple inheritance nested on a NON-principal branch: x SUBTYPE OF (p, m), m SUBTYPE OF (w, q), q SUBTYPE OF (q0) -
    the attributes of q and q0 reach x only through the second supertype of its second supertype."""
    s = Schema(name)
    s.entities += [_e('p', k=1), _e('w', k=1), _e('q0', k=1), _e('q', ['q0'], k=2), _e('m', ['w', 'q'], k=1), _e('x', ['p', 'm'], k=1),
                   _e('y', ['x'], k=1), _e('z', ['w', 'x'], k=1)]
    s.tags.add('shape:nested multiple inheritance')
    return s


def shape_diamond_derived(rng, name):
    s = Schema(name)
    s.entities += [_e('a', k=3, abstract=True), _e('b', ['a'], k=1), _e('c', ['a'], k=1), _e('d', ['b', 'c'], k=1)]
    s.entity('b').derived.append(Derived('a_a0', INT(), '9', redeclares=('a', 'a_a0')))
    s.entity('d').derived.append(Derived('d_new', INT(), '2'))
    s.entity('a').inverse.append(Inverse('users', 'h', 'ref', 'SET', 0, None))
    s.entities.append(Entity('h', attrs=[Attr('ref', ENT('a')), Attr('one', ENT('d'), True)]))
    s.entity('d').inverse.append(Inverse('holder', 'h', 'one'))
    s.tags.add('shape:diamond+derived')
    return s


# ----------------------------------------------------------------------------------------------- type zoo
def type_zoo(rng, name):
    """Defined types and in-place aggregates of every element kind and bound form."""
    s = Schema(name)
    s.types += [TypeDef('label', 'simple', base=STR()), TypeDef('cnt', 'simple', base=INT()), TypeDef('len', 'simple', base=REAL()),
                TypeDef('qty', 'simple', base=T('NUMBER')), TypeDef('flag', 'simple', base=T('BOOLEAN')), TypeDef('tri', 'simple', base=T('LOGICAL')),
                TypeDef('bits', 'simple', base=T('BINARY')), TypeDef('label2', 'simple', base=NAMED('label')), TypeDef('label3', 'simple', base=NAMED('label2')),
                TypeDef('colour', 'enum', items=rng.sample(['red', 'green', 'blue', 'cyan', 'amber', 'violet'], rng.randint(2, 6))),
                TypeDef('one', 'enum', items=['only']),
                TypeDef('sel', 'select', members=['label', 'len', 'colour', 'thing']),
                TypeDef('sel_of_sel', 'select', members=['sel', 'cnt']),
                TypeDef('ents', 'select', members=['thing', 'other'])]
    # defined aggregates over element kinds that are dictionary-complete when the aggregate is initialised
    dk = [('il', AGG('LIST', INT(), 1, None)), ('rs', AGG('SET', REAL(), 0, 5)), ('sa', AGG('ARRAY', STR(), 1, 4, optional=True)),
          ('lb', AGG('BAG', NAMED('label'), 2, 2)), ('ul', AGG('LIST', NAMED('cnt'), 0, 3, unique=True)), ('el', AGG('LIST', ENT('thing'), 0, None)),
          ('ua', AGG('ARRAY', INT(), 0, 1, unique=True, optional=True)), ('nb', AGG('SET', T('NUMBER'))), ('ce', AGG('LIST', NAMED('colour'), 1, 3))]
    for n, t in dk:
        s.types.append(TypeDef(n, 'simple', base=t))
    s.types.append(TypeDef('il2', 'simple', base=NAMED('il')))
    attrs = []
    el = [INT(), REAL(), STR(), T('NUMBER'), T('BOOLEAN'), T('LOGICAL'), NAMED('label'), NAMED('label3'), NAMED('colour'), NAMED('sel'), NAMED('sel_of_sel'),
          ENT('thing'), ENT('other'), NAMED('cnt'), NAMED('flag')]
    bounds = [(None, None), (0, None), (1, None), (0, 0), (2, 7), (3, 3)]
    i = 0
    for ak in ('LIST', 'SET', 'BAG', 'ARRAY'):
        for e in rng.sample(el, 6):
            lo, hi = rng.choice(bounds)
            if ak == 'ARRAY':
                lo = rng.choice([0, 1, 5, -2])
                hi = lo + rng.randint(0, 4)
            e2 = T(e.kind, e.name)
            t = AGG(ak, e2, lo, hi, unique=(ak in ('LIST', 'ARRAY') and rng.random() < .4), optional=(ak == 'ARRAY' and rng.random() < .5))
            attrs.append(Attr('g%d' % i, t, optional=rng.random() < .3))
            i += 1
    # nested in-place aggregates
    attrs.append(Attr('n0', AGG('LIST', AGG('SET', INT(), 1, 2), 0, None)))
    attrs.append(Attr('n1', AGG('ARRAY', AGG('LIST', AGG('BAG', NAMED('label'), 0, 2), 1, None), 1, 2)))
    attrs.append(Attr('n2', AGG('LIST', AGG('ARRAY', ENT('other'), 0, 1, optional=True), 1, 3, unique=True)))
    for n, _t in dk:
        attrs.append(Attr('d_%s' % n, NAMED(n), optional=rng.random() < .3))
    attrs += [Attr('d_il2', NAMED('il2')), Attr('p0', NAMED('qty')), Attr('p1', NAMED('tri'), True), Attr('p2', NAMED('bits')), Attr('p3', NAMED('one')),
              Attr('p4', NAMED('ents'), True), Attr('p5', NAMED('label3')), Attr('p6', T('BINARY'), True), Attr('p7', T('LOGICAL')), Attr('p8', T('NUMBER'), True)]
    rng.shuffle(attrs)
    half = len(attrs) // 2
    s.entities.append(Entity('thing', attrs=attrs[:half]))
    s.entities.append(Entity('other', supers=['thing'], attrs=attrs[half:]))
    s.tags.add('zoo')
    return s


def extras(seed, tier):
    """The extra schemas of one run (deterministic per seed)."""
    out = []

    def R(tag):
        return random.Random('c02x/%d/%s' % (seed, tag))
    out.append(naming_keywords(R('kwc'), 'xk%d' % seed, CXX_WORDS, 'naming:c++ keywords'))
    out.append(naming_keywords(R('kwp'), 'xp%d' % seed, P21_WORDS + CXX_WORDS[:8], 'naming:part 21 keywords'))
    out.append(naming_case(R('case'), 'xc%d' % seed))
    out.append(naming_long(R('long'), 'xl%d' % seed))
    out.append(shape_chain(R('chain'), 'xh%d' % seed, 6 if tier == 'quick' else 9))
    out.append(shape_diamond(R('dia'), 'xd%d' % seed))
    out.append(shape_two_roots(R('two'), 'xt%d' % seed))
    out.append(shape_nested_multi(R('nmi'), 'xn%d' % seed))
    out.append(shape_diamond_derived(R('dd'), 'xe%d' % seed))
    out.append(type_zoo(R('zoo'), 'xz%d' % seed))
    if tier != 'quick':
        for i in range(12):
            out.append(type_zoo(R('zoo%d' % i), 'xz%d_%d' % (seed, i)))
            out.append(naming_keywords(R('kwc%d' % i), 'xk%d_%d' % (seed, i), CXX_WORDS, 'naming:c++ keywords'))
    return [demask(s) for s in out]
