"""Running the four EXPRESS front ends on one input and reading what they say (shared by C04 and C20)."""
import os
import re
import shutil
import subprocess
import sys
import tempfile

from . import build, run

TOOLS = ('check-express', 'exppp', 'exp2cxx', 'exp2python')

# stdout/stderr texts by which a tool presents its run as a success (learnt by running the tools on valid schemas)
SUCCESS_MARKERS = {
    'check-express': ['No errors in input'],
    'exppp': ['No errors in input', 'writing schema file'],
    'exp2cxx': ['Finished writing files.'],
    'exp2python': ['Writing python module...Done.'],
}

# "<file>:<line>: --ERROR PE017: text" / "<file>:<line>: WARNING PW055: text" / "ERROR PE022: text" / "WARNING PW005: 0text"
_DIAG = re.compile(r'^(?:(?P<file>.*?):(?P<line>-?\d+): )?(?:--)?(?P<sev>ERROR|WARNING) P(?P<k>[EW])(?P<code>\d{3}): (?P<msg>.*)$')
_ANY_ERROR = re.compile(r'\bERROR PE\d+')
_ANY_WARNING = re.compile(r'\bWARNING PW\d+')


class Diag(object):
    __slots__ = ('file', 'line', 'sev', 'code', 'msg', 'raw')

    def __init__(self, file, line, sev, code, msg, raw):
        self.file, self.line, self.sev, self.code, self.msg, self.raw = file, line, sev, code, msg, raw

    def __repr__(self):
        return '%s:%s %s %03d %r' % (self.file, self.line, self.sev, self.code, self.msg)


def parse_diags(err):
    """-> (list of Diag, list of stderr lines that mention ERROR/WARNING but do not parse)."""
    out, odd = [], []
    for raw in err.split('\n'):
        raw = raw.rstrip('\r')
        m = _DIAG.match(raw)
        if m and (m.group('sev') == 'ERROR') == (m.group('k') == 'E'):
            out.append(Diag(m.group('file'), int(m.group('line')) if m.group('line') is not None else None,
                            m.group('sev'), int(m.group('code')), m.group('msg'), raw))
        elif _ANY_ERROR.search(raw) or _ANY_WARNING.search(raw):
            odd.append(raw)
    return out, odd


class ToolRun(object):
    """What one tool did with one input."""

    def __init__(self, tool, r, files, given):
        self.tool, self.r, self.files, self.given = tool, r, files, given
        self.diags, self.odd = parse_diags(r.err)
        self.errors = [d for d in self.diags if d.sev == 'ERROR']
        self.warnings = [d for d in self.diags if d.sev == 'WARNING']
        self.n_error_lines = len(self.errors) + sum(1 for l in self.odd if _ANY_ERROR.search(l))
        both = r.out + '\n' + r.err
        self.markers = [m for m in SUCCESS_MARKERS.get(tool, []) if m in both]
        self.py_ok = None

    @property
    def verdict(self):
        if self.r.timed_out:
            return 'timeout'
        if self.r.sig:
            return 'signal %d' % self.r.sig
        return 'accepted' if self.r.rc == 0 else 'rejected'

    def codes(self):
        return sorted(d.code for d in self.errors)

    def artefacts(self):
        """Files a user would take for the tool's result."""
        if self.tool == 'exppp':
            return [f for f in self.files if f.endswith('.exp')]
        if self.tool == 'exp2cxx':
            return [f for f in self.files if re.match(r'Sdai.*\.cc$', f)]
        if self.tool == 'exp2python':
            return [f for f in self.files if f.endswith('.py')] if self.py_ok else []
        return []

    def brief(self):
        return dict(tool=self.tool, verdict=self.verdict, exit=self.r.rc, errors=[d.raw for d in self.errors][:6],
                    warnings=len(self.warnings), markers=self.markers, files=self.files[:8])


_state = {}


def tools_dir():
    """Private snapshot (bin/ of the four tools + lib/) of the plain build of the current working tree: the build cache
    keeps only a few trees and another check may prune this one while the run is in progress."""
    if 'b' not in _state:
        import atexit
        src = build.core('plain')
        snap = tempfile.mkdtemp(prefix='c04tools', dir='/dev/shm')
        atexit.register(shutil.rmtree, snap, True)
        os.mkdir(os.path.join(snap, 'bin'))
        for t in TOOLS:
            shutil.copy2(os.path.join(src, 'bin', t), os.path.join(snap, 'bin', t))
        shutil.copytree(os.path.join(src, 'lib'), os.path.join(snap, 'lib'), symlinks=True)
        _state['b'] = snap
        _state['src'] = src
        _state['env'] = build.env(snap)
    return _state['b']


def run_tool(tool, data, args=(), name='in.exp', how='abs', timeout=60):
    """Run `tool [args] <input>` in an empty scratch directory.
    how: 'abs' absolute path in another directory, 'rel' ../src/<name> relative to the working directory, 'cwd' bare file
    name inside the working directory (then the input is the only file present before the run)."""
    b = tools_dir()
    top = tempfile.mkdtemp(prefix='c04', dir='/dev/shm')
    try:
        wd = os.path.join(top, 'w')
        os.mkdir(wd)
        if how == 'cwd':
            p = os.path.join(wd, name)
            given = name
        else:
            os.mkdir(os.path.join(top, 'src'))
            p = os.path.join(top, 'src', name)
            given = p if how == 'abs' else os.path.join('..', 'src', name)
        with open(p, 'wb') as f:
            f.write(data if isinstance(data, bytes) else data.encode('utf-8'))
        r = run.run([os.path.join(b, 'bin', tool)] + list(args) + [given], cwd=wd, env=_state['env'], timeout=timeout)
        files = sorted(x for x in _walk(wd) if not (how == 'cwd' and x == name))
        tr = ToolRun(tool, r, files, given)
        if tool == 'exp2python' and r.rc == 0 and not r.sig:
            pys = [x for x in files if x.endswith('.py')]
            tr.py_ok = bool(pys) and all(_py_compiles(os.path.join(wd, x)) for x in pys)
        return tr
    finally:
        shutil.rmtree(top, ignore_errors=True)


def _walk(d):
    for root, dirs, files in os.walk(d):
        for f in files:
            yield os.path.relpath(os.path.join(root, f), d)


def _py_compiles(path):
    try:
        with open(path, 'rb') as f:
            compile(f.read(), path, 'exec')
        return True
    except (SyntaxError, ValueError, OSError):
        return False


def usage_warning_names():
    """Warning class names the tool itself advertises (usage text after an unknown option), incl. none/all."""
    b = tools_dir()
    r = run.run([os.path.join(b, 'bin', 'check-express'), '-Z', 'x'], cwd='/dev/shm', env=_state['env'], timeout=30)
    names, on = [], False
    for l in r.err.split('\n'):
        if l.startswith('and <warning> is one of'):
            on = True
        elif l.startswith('and <object_type>'):
            break
        elif on and l.startswith('\t') and l.strip():
            if l.strip() not in names:
                names.append(l.strip())
    return names, r
