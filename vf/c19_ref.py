"""C19 reference model: EXPRESS aggregate semantics as a position map / multiset / set.

Enforces ONLY what property C19 states (DESIGN.md "### C19" gives the reading):

 ARRAY [b1:b2]   index valid iff b1 <= i <= b2; element must be of the base type; UNIQUE forbids a value already present
                 at ANOTHER index (re-writing the value an index already holds is allowed); reading an unset element is
                 accepted (gives None) iff OPTIONAL; size b2-b1+1, loindex/lobound b1, hiindex/hibound b2;
                 value_unique: Unknown when an element is unset and no two set elements are equal, {False, Unknown}
                 when an element is unset and two set elements are equal (ISO 10303-11 15.29 lists "equal -> false"
                 before "indeterminate -> unknown"; the runtime's docstring the other way round - both tolerated),
                 otherwise True iff all different.
 LIST [b1:b2|?]  positions are 1-based; the number of elements never exceeds b2 and a write that keeps it <= b2 is not
                 refused for capacity: write at i <= 0 or i > b2 is refused; wrong type refused; UNIQUE forbids a value
                 held at another position; overwriting a held position and writing the position right after the dense
                 prefix 1..p are accepted; a SPARSE write (i > p+1) is NOT judged - the model follows whatever the real
                 code did.  Read: refused for i <= 0, i > b2 and for a position never written, else the value written.
                 size/hiindex == number of elements held (with gaps also the highest position is tolerated);
                 value_unique True iff all different (with gaps Unknown is tolerated as well).
 BAG  [b1:b2|?]  add: wrong type refused; refused when b2 elements are held; accepted otherwise.  size/hiindex == n.
 SET  [b1:b2|?]  as BAG, and never two equal elements: adding an element already present leaves the set unchanged
                 (accepting it silently or refusing it are both tolerated); value_unique is True.
 all             lobound/hibound as declared (hibound None when unbounded), loindex 1 for LIST/BAG/SET.
 construct       ARRAY needs integer b1 <= b2; LIST/BAG/SET need b1 >= 0 and b2 indeterminate or >= b1.

Not judged (ambiguous or outside the statement): sparse LIST writes, the lower bound as a MINIMUM number of elements
(an aggregate under construction legitimately holds fewer), assigning None / plain Python int / an INTEGER to a REAL
aggregate, indexing of BAG/SET, which exception class signals a refusal (any of IndexError, TypeError, AssertionError,
ValueError, KeyError counts as "refused"; any other exception class is reported as a failure of the operation).

Base types that are themselves aggregates ("elements of the declared base type" for BAG OF ARRAY [1:2] OF LIST OF REAL):
a type descriptor is a simple type name or (kind, b1, b2, T).  An aggregate-valued element is (T', token, mode): an
instance of type T' (token = identity AND value: different tokens are different objects holding different innermost
values, the same token is the same object; mode says how its declaration objects were built - irrelevant for EXPRESS).
It is of the declared base type T iff T' and T agree level by level in: the aggregate KIND; the bounds of an ARRAY (they
are its index range, ISO 10303-11 8.2.1/9.2.6: an ARRAY [1:3] is no ARRAY [1:2]); the nesting depth; the innermost simple
type.  Judged 'either': T' differs from T only in the bounds of a LIST/BAG/SET level (narrower bounds are a specialization,
wider ones a question of the value's size) or by INTEGER where REAL is declared.  UNIQUE/OPTIONAL of inner levels are not
varied.  The position of the outermost hard difference (nesting level 1 = the element's own kind/bounds) is named in the
reason.  Everything else (bounds, capacity, uniqueness by token, reads, queries) is the model above, unchanged.

Values are (type_name, python_value) or (T', token, mode) tuples; states are hashable tuples; the model is purely functional.
"""
from collections import namedtuple

KINDS = ('ARRAY', 'LIST', 'BAG', 'SET')
BASES = ('INTEGER', 'REAL', 'STRING')
QUERIES = ('get_size', 'get_hiindex', 'get_loindex', 'get_hibound', 'get_lobound', 'get_value_unique')
REFUSAL_EXC = ('IndexError', 'TypeError', 'AssertionError', 'ValueError', 'KeyError')

Cfg = namedtuple('Cfg', 'kind b1 b2 unique optional base')
# verdict: 'accept' | 'refuse' | 'either'; want: None (any) | ('val', value|None) | ('int', {ints}) | ('none',) | ('logical', {..})
Expect = namedtuple('Expect', 'verdict reason want')


def tt(t):
    """type descriptor from JSON (nested lists) -> hashable nested tuple."""
    if isinstance(t, str):
        return t
    return (t[0], t[1], t[2], tt(t[3]))


def is_agg(t):
    return not isinstance(t, str)


def type_depth(t):
    n = 0
    while is_agg(t):
        n, t = n + 1, t[3]
    return n


def innermost(t):
    while is_agg(t):
        t = t[3]
    return t


def type_text(t):
    if not is_agg(t):
        return t
    return '%s [%s:%s] OF %s' % (t[0], t[1], '?' if t[2] is None else t[2], type_text(t[3]))


def type_diff(decl, got, level=1):
    """-> (hard, soft): hard = the outermost difference that makes `got` another EXPRESS type than `decl` (None: no such
    difference), soft = True when there is a difference this oracle does not judge."""
    if not is_agg(decl) and not is_agg(got):
        if decl == got:
            return None, False
        if decl == 'REAL' and got == 'INTEGER':
            return None, True
        return 'innermost simple type differs', False
    if not is_agg(decl) or not is_agg(got):
        if level == 1:
            return ('simple value where an aggregate is declared' if is_agg(decl) else 'aggregate where a simple type is declared'), False
        return 'nesting depth differs at nesting level %d' % level, False
    if decl[0] != got[0]:
        return 'kind differs at nesting level %d' % level, False
    hard, soft = None, False
    if (decl[1], decl[2]) != (got[1], got[2]):
        if decl[0] == 'ARRAY':
            hard = 'ARRAY bounds differ at nesting level %d' % level
        else:
            soft = True
    h2, s2 = type_diff(decl[3], got[3], level + 1)
    return hard or h2, soft or s2


TYPE_MARK = 'aggregate element'
SEPARATE_REASON = 'store aggregate element of the declared type, declaration built separately'


def _type_expect(c, v, w):
    """-> Expect when the type of value v decides the outcome of a write/add, else None (v is of the base type)."""
    if not is_agg(c.base) and not is_agg(v[0]):
        return None if v[0] == c.base else Expect('refuse', w + ' wrong type', None)
    hard, soft = type_diff(c.base, v[0])
    if hard:
        return Expect('refuse', '%s %s: %s' % (w, TYPE_MARK, hard), None)
    if soft:
        return Expect('either', '%s %s: type differs only in LIST/BAG/SET bounds or INTEGER for REAL (not judged)' % (w, TYPE_MARK), None)
    return None


def _stored(v, exp):
    return exp


def separately_declared(c, exp, op):
    """True for an operation that must be accepted and stores an aggregate element of the declared type whose
    declaration objects were built separately (irrelevant for EXPRESS; the runtime must not care)."""
    if op is None or op[0] not in ('set', 'add') or exp.verdict != 'accept':
        return False
    v = val(op[-1])
    return is_agg(v[0]) and v[2] == 'separate'


def cfg_from_json(d):
    return Cfg(d['kind'], d['b1'], d['b2'], bool(d['unique']), bool(d['optional']), tt(d['base']))


def cfg_json(c):
    return dict(kind=c.kind, b1=c.b1, b2=c.b2, unique=c.unique, optional=c.optional, base=c.base)


def cfg_text(c):
    b = '[%s:%s]' % (c.b1, '?' if c.b2 is None else c.b2)
    fl = (' OPTIONAL' if c.optional else '') + (' UNIQUE' if c.unique else '')
    return '%s %s OF%s %s' % (c.kind, b, fl, type_text(c.base))


def cfg_class(c, op=None):
    """The part of a configuration (and of the operation's index) a finding key names.  ARRAY bounds are only an index
    range.  For BAG/SET the lower bound must not influence what is accepted, so its class (0, 1, >= 2) is part of the
    shape of a defect.  For LIST the same holds, and what matters for an indexed operation is on which side of bound_1
    the position lies (EXPRESS: irrelevant), so that relation is named instead of the value of bound_1."""
    if c.kind == 'ARRAY':
        return 'ARRAY'
    bd = 'unbounded' if c.b2 is None else 'bounded'
    if c.kind == 'LIST':
        if op is not None and op[0] in ('set', 'get'):
            return 'LIST %s, index %s bound_1' % (bd, 'below' if op[1] < c.b1 else 'at or above')
        return 'LIST %s' % bd
    b1 = 'b1=0' if c.b1 == 0 else 'b1=1' if c.b1 == 1 else 'b1>=2' if c.b1 >= 2 else 'b1<0'
    return '%s %s %s' % (c.kind, b1, bd)


def construct_expect(c):
    if c.kind == 'ARRAY':
        ok = isinstance(c.b1, int) and isinstance(c.b2, int) and c.b1 <= c.b2
    else:
        ok = isinstance(c.b1, int) and c.b1 >= 0 and (c.b2 is None or (isinstance(c.b2, int) and c.b1 <= c.b2))
    return Expect('accept', 'construct with valid bounds', None) if ok else Expect('refuse', 'construct with invalid bounds', None)


def initial(c):
    return ()


def val(v):
    if isinstance(v[0], str):
        return (v[0], v[1])
    return (tt(v[0]), v[1], v[2])


def _dense_prefix(d):
    p = 0
    while (p + 1) in d:
        p += 1
    return p


def _dups(vals):
    vals = list(vals)
    return len(set(vals)) != len(vals)


def judge(c, st, op):
    """-> Expect for operation op = (kind, ...) in model state st."""
    t = op[0]
    if c.kind == 'ARRAY':
        d = dict(st)
        if t in ('set', 'get'):
            i = op[1]
            w = 'write' if t == 'set' else 'read'
            if i < c.b1:
                return Expect('refuse', w + ' below lower index', None)
            if i > c.b2:
                return Expect('refuse', w + ' above upper index', None)
            if t == 'get':
                if i in d:
                    return Expect('accept', 'read set element', ('val', d[i]))
                if c.optional:
                    return Expect('accept', 'read unset element (OPTIONAL)', ('val', None))
                return Expect('refuse', 'read unset element (not OPTIONAL)', None)
            v = val(op[2])
            te = _type_expect(c, v, 'write')
            if te is not None:
                return te
            if c.unique and any(x == v for j, x in d.items() if j != i):
                return Expect('refuse', 'write duplicate of another element (UNIQUE)', None)
            if c.unique and d.get(i) == v:
                return _stored(v, Expect('accept', 'rewrite same value at same index (UNIQUE)', None))
            return _stored(v, Expect('accept', 'overwrite element' if i in d else 'write unset element', None))
        if t == 'q':
            n = c.b2 - c.b1 + 1
            q = op[1]
            if q == 'get_size':
                return Expect('accept', 'query ' + q[4:], ('int', {n}))
            if q in ('get_hiindex', 'get_hibound'):
                return Expect('accept', 'query ' + q[4:], ('int', {c.b2}))
            if q in ('get_loindex', 'get_lobound'):
                return Expect('accept', 'query ' + q[4:], ('int', {c.b1}))
            if q == 'get_value_unique':
                if len(d) < n:
                    return Expect('accept', 'query ' + q[4:], ('logical', {'False', 'Unknown'} if _dups(d.values()) else {'Unknown'}))
                return Expect('accept', 'query ' + q[4:], ('logical', {'False' if _dups(d.values()) else 'True'}))
    elif c.kind == 'LIST':
        d = dict(st)
        if t in ('set', 'get'):
            i = op[1]
            w = 'write' if t == 'set' else 'read'
            if i <= 0:
                return Expect('refuse', w + ' at index <= 0', None)
            if c.b2 is not None and i > c.b2:
                return Expect('refuse', w + ' above upper bound', None)
            if t == 'get':
                if i in d:
                    return Expect('accept', 'read element', ('val', d[i]))
                return Expect('refuse', 'read position never written', None)
            v = val(op[2])
            te = _type_expect(c, v, 'write')
            if te is not None:
                return te
            if c.unique and any(x == v for j, x in d.items() if j != i):
                return Expect('refuse', 'write duplicate of another element (UNIQUE)', None)
            if i in d:
                if c.unique and d[i] == v:
                    return _stored(v, Expect('accept', 'rewrite same value at same index (UNIQUE)', None))
                return _stored(v, Expect('accept', 'overwrite element', None))
            if i == _dense_prefix(d) + 1:
                return _stored(v, Expect('accept', 'append at next position', None))
            return Expect('either', 'sparse write (not judged)', None)
        if t == 'q':
            q = op[1]
            gaps = _dense_prefix(d) != len(d)
            if q in ('get_size', 'get_hiindex'):
                return Expect('accept', 'query ' + q[4:], ('int', {len(d), max(d)} if gaps else {len(d)}))
            if q == 'get_loindex':
                return Expect('accept', 'query ' + q[4:], ('int', {1}))
            if q == 'get_lobound':
                return Expect('accept', 'query ' + q[4:], ('int', {c.b1}))
            if q == 'get_hibound':
                return Expect('accept', 'query ' + q[4:], ('none',) if c.b2 is None else ('int', {c.b2}))
            if q == 'get_value_unique':
                truth = 'False' if _dups(d.values()) else 'True'
                return Expect('accept', 'query ' + q[4:], ('logical', {truth, 'Unknown'} if gaps else {truth}))
    else:  # BAG, SET
        if t == 'add':
            v = val(op[1])
            te = _type_expect(c, v, 'add')
            if te is not None:
                return te
            if c.kind == 'SET' and v in st:
                return Expect('either', 'add element already present', None)
            if c.b2 is not None and len(st) >= c.b2:
                return Expect('refuse', 'add new element to full container', None)
            return _stored(v, Expect('accept', 'add new element below upper bound', None))
        if t == 'q':
            q = op[1]
            if q in ('get_size', 'get_hiindex'):
                return Expect('accept', 'query ' + q[4:], ('int', {len(st)}))
            if q == 'get_loindex':
                return Expect('accept', 'query ' + q[4:], ('int', {1}))
            if q == 'get_lobound':
                return Expect('accept', 'query ' + q[4:], ('int', {c.b1}))
            if q == 'get_hibound':
                return Expect('accept', 'query ' + q[4:], ('none',) if c.b2 is None else ('int', {c.b2}))
            if q == 'get_value_unique':
                return Expect('accept', 'query ' + q[4:], ('logical', {'False' if _dups(st) else 'True'}))
    raise ValueError('operation %r not defined for %s' % (op, c.kind))


def apply(c, st, op):
    """State after an ACCEPTED mutation (reads and queries never change the state)."""
    t = op[0]
    if t == 'set':
        d = dict(st)
        d[op[1]] = val(op[2])
        return tuple(sorted(d.items()))
    if t == 'add':
        v = val(op[1])
        if c.kind == 'SET' and v in st:
            return st
        return tuple(sorted(st + (v,), key=repr))
    return st


def is_mutation(op):
    return op[0] in ('set', 'add')


def compare(exp, op, out):
    """Real outcome out = ['v', type, repr] | ['x', class, msg] against Expect -> None (agrees) or a short symptom."""
    exc = out[0] == 'x'
    if out[0] == 'b':
        return None                          # element could not be built: reported as inconclusive by the caller
    if exc and out[1] not in REFUSAL_EXC:
        return 'fails with %s' % out[1]
    if exp.verdict == 'either':
        return None
    if exp.verdict == 'refuse':
        if exc:
            return None
        return 'accepted' if (is_mutation(op) or op[0] == 'construct') else 'returns a value'
    if exc:
        return 'refused with %s' % out[1]
    w = exp.want
    if w is None:
        return None
    tn, rp = out[1], out[2]
    if w[0] == 'val':
        if w[1] is None:
            return None if tn == 'NoneType' else 'returns a value for an unset element'
        if tn == 'NoneType':
            return 'returns None'
        if is_agg(w[1][0]):
            return None if (tn == 'AGG' and rp == repr(w[1][1])) else 'returns a different value'
        if tn != w[1][0] or rp != repr(w[1][1]):
            return 'returns a different value'
        return None
    if w[0] == 'none':
        return None if tn == 'NoneType' else 'reports a number instead of indeterminate'
    if w[0] == 'int':
        if tn not in ('INTEGER', 'int'):
            return 'reports a non-integer'
        g = int(rp)
        if g in w[1]:
            return None
        return 'reports too many' if g > max(w[1]) else 'reports too few'
    if w[0] == 'logical':
        g = rp if tn in ('bool', 'LOGICAL') else None
        if g in w[1]:
            return None
        if g == 'Unknown':
            return 'reports Unknown although no element is indeterminate'
        return 'reports %s instead of %s' % (g if g is not None else 'a non-logical', '/'.join(sorted(w[1])))
    raise ValueError(w)


def finding_key(c, exp, got, op=None):
    if got == 'refused with TypeError' and separately_declared(c, exp, op):
        # a right-typed element refused for its TYPE: one defect whatever position it was written to
        return '%s OF aggregate|%s|expected accept, %s' % (c.kind, SEPARATE_REASON, got)
    if TYPE_MARK in exp.reason:
        # whether an aggregate-valued element is of the base type does not depend on the container's bounds or on the index
        cls = '%s OF %s' % (c.kind, 'aggregate' if is_agg(c.base) else 'simple type')
    else:
        cls = cfg_class(c, op)
    return '%s|%s|expected %s, %s' % (cls, exp.reason, exp.verdict, got)


def op_text(op):
    def v(x):
        if is_agg(tt(x[0])):
            return '<%s #%s, %s declaration>' % (type_text(tt(x[0])), x[1], x[2])
        return '%s(%r)' % (x[0], x[1])
    if op[0] == 'set':
        return 'x[%d] = %s' % (op[1], v(op[2]))
    if op[0] == 'get':
        return 'x[%d]' % op[1]
    if op[0] == 'add':
        return 'x.add(%s)' % v(op[1])
    if op[0] == 'q':
        return 'x.%s()' % op[1]
    return repr(op)
