"""C19 reference model: EXPRESS aggregate semantics as a position map / multiset / set.

Enforces ONLY what property C19 states (DESIGN.md "### C19" gives the reading):

 ARRAY [b1:b2]   index valid iff b1 <= i <= b2; element must be of the base type; UNIQUE forbids a value already present
                 at ANOTHER index (re-writing the value an index already holds is allowed); reading an unset element is
                 accepted (gives None) iff OPTIONAL; size b2-b1+1, loindex/lobound b1, hiindex/hibound b2;
                 value_unique: Unknown when an element is unset and no two set elements are equal, {False, Unknown}
                 when an element is unset and two set elements are equal (ISO 10303-11 15.29 lists "equal -> false"
                 before "indeterminate -> unknown"; the runtime's docstring the other way round - both tolerated),
                 otherwise True iff all different.
 LIST [b1:b2|?]  positions are 1-based; the number of elements never exceeds b2 and a write that keeps it <= b2 is not
                 refused for capacity: write at i <= 0 or i > b2 is refused; wrong type refused; UNIQUE forbids a value
                 held at another position; overwriting a held position and writing the position right after the dense
                 prefix 1..p are accepted; a SPARSE write (i > p+1) is NOT judged - the model follows whatever the real
                 code did.  Read: refused for i <= 0, i > b2 and for a position never written, else the value written.
                 size/hiindex == number of elements held (with gaps also the highest position is tolerated);
                 value_unique True iff all different (with gaps Unknown is tolerated as well).
 BAG  [b1:b2|?]  add: wrong type refused; refused when b2 elements are held; accepted otherwise.  size/hiindex == n.
 SET  [b1:b2|?]  as BAG, and never two equal elements: adding an element already present leaves the set unchanged
                 (accepting it silently or refusing it are both tolerated); value_unique is True.
 all             lobound/hibound as declared (hibound None when unbounded), loindex 1 for LIST/BAG/SET.
 construct       ARRAY needs integer b1 <= b2; LIST/BAG/SET need b1 >= 0 and b2 indeterminate or >= b1.

Not judged (ambiguous or outside the statement): sparse LIST writes, the lower bound as a MINIMUM number of elements
(an aggregate under construction legitimately holds fewer), assigning None / plain Python int / an INTEGER to a REAL
aggregate, indexing of BAG/SET, which exception class signals a refusal (any of IndexError, TypeError, AssertionError,
ValueError, KeyError counts as "refused"; any other exception class is reported as a failure of the operation).

Values are (type_name, python_value) tuples; states are hashable tuples; the model is purely functional.
"""
from collections import namedtuple

KINDS = ('ARRAY', 'LIST', 'BAG', 'SET')
BASES = ('INTEGER', 'REAL', 'STRING')
QUERIES = ('get_size', 'get_hiindex', 'get_loindex', 'get_hibound', 'get_lobound', 'get_value_unique')
REFUSAL_EXC = ('IndexError', 'TypeError', 'AssertionError', 'ValueError', 'KeyError')

Cfg = namedtuple('Cfg', 'kind b1 b2 unique optional base')
# verdict: 'accept' | 'refuse' | 'either'; want: None (any) | ('val', value|None) | ('int', {ints}) | ('none',) | ('logical', {..})
Expect = namedtuple('Expect', 'verdict reason want')


def cfg_from_json(d):
    return Cfg(d['kind'], d['b1'], d['b2'], bool(d['unique']), bool(d['optional']), d['base'])


def cfg_json(c):
    return dict(kind=c.kind, b1=c.b1, b2=c.b2, unique=c.unique, optional=c.optional, base=c.base)


def cfg_text(c):
    b = '[%s:%s]' % (c.b1, '?' if c.b2 is None else c.b2)
    fl = (' OPTIONAL' if c.optional else '') + (' UNIQUE' if c.unique else '')
    return '%s %s OF%s %s' % (c.kind, b, fl, c.base)


def cfg_class(c, op=None):
    """The part of a configuration (and of the operation's index) a finding key names.  ARRAY bounds are only an index
    range.  For BAG/SET the lower bound must not influence what is accepted, so its class (0, 1, >= 2) is part of the
    shape of a defect.  For LIST the same holds, and what matters for an indexed operation is on which side of bound_1
    the position lies (EXPRESS: irrelevant), so that relation is named instead of the value of bound_1."""
    if c.kind == 'ARRAY':
        return 'ARRAY'
    bd = 'unbounded' if c.b2 is None else 'bounded'
    if c.kind == 'LIST':
        if op is not None and op[0] in ('set', 'get'):
            return 'LIST %s, index %s bound_1' % (bd, 'below' if op[1] < c.b1 else 'at or above')
        return 'LIST %s' % bd
    b1 = 'b1=0' if c.b1 == 0 else 'b1=1' if c.b1 == 1 else 'b1>=2' if c.b1 >= 2 else 'b1<0'
    return '%s %s %s' % (c.kind, b1, bd)


def construct_expect(c):
    if c.kind == 'ARRAY':
        ok = isinstance(c.b1, int) and isinstance(c.b2, int) and c.b1 <= c.b2
    else:
        ok = isinstance(c.b1, int) and c.b1 >= 0 and (c.b2 is None or (isinstance(c.b2, int) and c.b1 <= c.b2))
    return Expect('accept', 'construct with valid bounds', None) if ok else Expect('refuse', 'construct with invalid bounds', None)


def initial(c):
    return ()


def val(v):
    return (v[0], v[1])


def _dense_prefix(d):
    p = 0
    while (p + 1) in d:
        p += 1
    return p


def _dups(vals):
    vals = list(vals)
    return len(set(vals)) != len(vals)


def judge(c, st, op):
    """-> Expect for operation op = (kind, ...) in model state st."""
    t = op[0]
    if c.kind == 'ARRAY':
        d = dict(st)
        if t in ('set', 'get'):
            i = op[1]
            w = 'write' if t == 'set' else 'read'
            if i < c.b1:
                return Expect('refuse', w + ' below lower index', None)
            if i > c.b2:
                return Expect('refuse', w + ' above upper index', None)
            if t == 'get':
                if i in d:
                    return Expect('accept', 'read set element', ('val', d[i]))
                if c.optional:
                    return Expect('accept', 'read unset element (OPTIONAL)', ('val', None))
                return Expect('refuse', 'read unset element (not OPTIONAL)', None)
            v = val(op[2])
            if v[0] != c.base:
                return Expect('refuse', 'write wrong type', None)
            if c.unique and any(x == v for j, x in d.items() if j != i):
                return Expect('refuse', 'write duplicate of another element (UNIQUE)', None)
            if c.unique and d.get(i) == v:
                return Expect('accept', 'rewrite same value at same index (UNIQUE)', None)
            return Expect('accept', 'overwrite element' if i in d else 'write unset element', None)
        if t == 'q':
            n = c.b2 - c.b1 + 1
            q = op[1]
            if q == 'get_size':
                return Expect('accept', 'query ' + q[4:], ('int', {n}))
            if q in ('get_hiindex', 'get_hibound'):
                return Expect('accept', 'query ' + q[4:], ('int', {c.b2}))
            if q in ('get_loindex', 'get_lobound'):
                return Expect('accept', 'query ' + q[4:], ('int', {c.b1}))
            if q == 'get_value_unique':
                if len(d) < n:
                    return Expect('accept', 'query ' + q[4:], ('logical', {'False', 'Unknown'} if _dups(d.values()) else {'Unknown'}))
                return Expect('accept', 'query ' + q[4:], ('logical', {'False' if _dups(d.values()) else 'True'}))
    elif c.kind == 'LIST':
        d = dict(st)
        if t in ('set', 'get'):
            i = op[1]
            w = 'write' if t == 'set' else 'read'
            if i <= 0:
                return Expect('refuse', w + ' at index <= 0', None)
            if c.b2 is not None and i > c.b2:
                return Expect('refuse', w + ' above upper bound', None)
            if t == 'get':
                if i in d:
                    return Expect('accept', 'read element', ('val', d[i]))
                return Expect('refuse', 'read position never written', None)
            v = val(op[2])
            if v[0] != c.base:
                return Expect('refuse', 'write wrong type', None)
            if c.unique and any(x == v for j, x in d.items() if j != i):
                return Expect('refuse', 'write duplicate of another element (UNIQUE)', None)
            if i in d:
                if c.unique and d[i] == v:
                    return Expect('accept', 'rewrite same value at same index (UNIQUE)', None)
                return Expect('accept', 'overwrite element', None)
            if i == _dense_prefix(d) + 1:
                return Expect('accept', 'append at next position', None)
            return Expect('either', 'sparse write (not judged)', None)
        if t == 'q':
            q = op[1]
            gaps = _dense_prefix(d) != len(d)
            if q in ('get_size', 'get_hiindex'):
                return Expect('accept', 'query ' + q[4:], ('int', {len(d), max(d)} if gaps else {len(d)}))
            if q == 'get_loindex':
                return Expect('accept', 'query ' + q[4:], ('int', {1}))
            if q == 'get_lobound':
                return Expect('accept', 'query ' + q[4:], ('int', {c.b1}))
            if q == 'get_hibound':
                return Expect('accept', 'query ' + q[4:], ('none',) if c.b2 is None else ('int', {c.b2}))
            if q == 'get_value_unique':
                truth = 'False' if _dups(d.values()) else 'True'
                return Expect('accept', 'query ' + q[4:], ('logical', {truth, 'Unknown'} if gaps else {truth}))
    else:  # BAG, SET
        if t == 'add':
            v = val(op[1])
            if v[0] != c.base:
                return Expect('refuse', 'add wrong type', None)
            if c.kind == 'SET' and v in st:
                return Expect('either', 'add element already present', None)
            if c.b2 is not None and len(st) >= c.b2:
                return Expect('refuse', 'add new element to full container', None)
            return Expect('accept', 'add new element below upper bound', None)
        if t == 'q':
            q = op[1]
            if q in ('get_size', 'get_hiindex'):
                return Expect('accept', 'query ' + q[4:], ('int', {len(st)}))
            if q == 'get_loindex':
                return Expect('accept', 'query ' + q[4:], ('int', {1}))
            if q == 'get_lobound':
                return Expect('accept', 'query ' + q[4:], ('int', {c.b1}))
            if q == 'get_hibound':
                return Expect('accept', 'query ' + q[4:], ('none',) if c.b2 is None else ('int', {c.b2}))
            if q == 'get_value_unique':
                return Expect('accept', 'query ' + q[4:], ('logical', {'False' if _dups(st) else 'True'}))
    raise ValueError('operation %r not defined for %s' % (op, c.kind))


def apply(c, st, op):
    """State after an ACCEPTED mutation (reads and queries never change the state)."""
    t = op[0]
    if t == 'set':
        d = dict(st)
        d[op[1]] = val(op[2])
        return tuple(sorted(d.items()))
    if t == 'add':
        v = val(op[1])
        if c.kind == 'SET' and v in st:
            return st
        return tuple(sorted(st + (v,)))
    return st


def is_mutation(op):
    return op[0] in ('set', 'add')


def compare(exp, op, out):
    """Real outcome out = ['v', type, repr] | ['x', class, msg] against Expect -> None (agrees) or a short symptom."""
    exc = out[0] == 'x'
    if exc and out[1] not in REFUSAL_EXC:
        return 'fails with %s' % out[1]
    if exp.verdict == 'either':
        return None
    if exp.verdict == 'refuse':
        if exc:
            return None
        return 'accepted' if (is_mutation(op) or op[0] == 'construct') else 'returns a value'
    if exc:
        return 'refused with %s' % out[1]
    w = exp.want
    if w is None:
        return None
    tn, rp = out[1], out[2]
    if w[0] == 'val':
        if w[1] is None:
            return None if tn == 'NoneType' else 'returns a value for an unset element'
        if tn == 'NoneType':
            return 'returns None'
        if tn != w[1][0] or rp != repr(w[1][1]):
            return 'returns a different value'
        return None
    if w[0] == 'none':
        return None if tn == 'NoneType' else 'reports a number instead of indeterminate'
    if w[0] == 'int':
        if tn not in ('INTEGER', 'int'):
            return 'reports a non-integer'
        g = int(rp)
        if g in w[1]:
            return None
        return 'reports too many' if g > max(w[1]) else 'reports too few'
    if w[0] == 'logical':
        g = rp if tn in ('bool', 'LOGICAL') else None
        if g in w[1]:
            return None
        if g == 'Unknown':
            return 'reports Unknown although no element is indeterminate'
        return 'reports %s instead of %s' % (g if g is not None else 'a non-logical', '/'.join(sorted(w[1])))
    raise ValueError(w)


def finding_key(c, exp, got, op=None):
    return '%s|%s|expected %s, %s' % (cfg_class(c, op), exp.reason, exp.verdict, got)


def op_text(op):
    def v(x):
        return '%s(%r)' % (x[0], x[1])
    if op[0] == 'set':
        return 'x[%d] = %s' % (op[1], v(op[2]))
    if op[0] == 'get':
        return 'x[%d]' % op[1]
    if op[0] == 'add':
        return 'x.add(%s)' % v(op[1])
    if op[0] == 'q':
        return 'x.%s()' % op[1]
    return repr(op)
