"""Grammar-directed random *data* schemas for the Part 21 family of checks (C01-C03, C05, C08, C10, C11, C14-C16).

Every feature the generator can use has a name; `avoid` masks features (used to keep the randomized
workload inside the sub-space where open known findings do not trigger; each mask is tied to a finding and
the masked feature is still exercised by that finding's deterministic probe).
"""
import copy
import random
from .model import (Schema, TypeDef, Entity, Attr, Derived, Inverse, T, INT, REAL, STR, NAMED, ENT, AGG, SIMPLE)

FEATURES = [
    'renamed_select',        # TYPE s3 = s1 (s1 a select) used as attribute type
    'array_optional',        # ARRAY OF OPTIONAL x with $ elements
    'nested_aggr',           # LIST OF LIST OF x
    'aggr_of_select', 'aggr_of_enum', 'aggr_of_binary', 'aggr_of_string', 'aggr_of_bool', 'aggr_of_entity',
    'select_of_select', 'select_aggr_member', 'select_entity_member',
    'derived_redecl', 'derived_new', 'inverse', 'multi_inherit', 'abstract', 'sexpr',
    'defined_aggr',          # TYPE ilist = LIST OF INTEGER
    'renamed_enum', 'number', 'binary', 'logical',
    'required_entity_ref',      # a non-OPTIONAL attribute whose value must contain an entity reference
    'selmember_renamed_enum',   # entity that is a select member (or its ancestor) has an attribute of a renamed enumeration type
    'enum_prefix_items',        # enumeration items that are proper prefixes of other items of the same type
    'select_chain_members',     # SELECT listing a defined type together with the defined type it renames
    'merged_attr_decls',        # several attributes declared in one clause (a, b : OPTIONAL T;)
]

ITEMS = ['red', 'green', 'blue', 'cyan', 'amber', 'violet', 'white', 'grey']


class Gen(object):
    def __init__(self, rng, avoid=()):
        self.rng = rng
        self.avoid = set(avoid)

    def ok(self, f):
        return f not in self.avoid

    def schema(self, name, n_entities=None):
        rng = self.rng
        s = Schema(name)
        p = name[:1]  # prefix keeps identifiers distinct between schemas
        # ---- types
        tl = TypeDef('label', 'simple', base=STR())
        tr = TypeDef('len', 'simple', base=REAL())
        tc = TypeDef('cnt', 'simple', base=INT())
        s.types += [tl, tr, tc]
        if rng.random() < .7:
            s.types.append(TypeDef('label2', 'simple', base=NAMED('label')))
        if rng.random() < .5:
            s.types.append(TypeDef('flag', 'simple', base=T('BOOLEAN')))
        if self.ok('number') and rng.random() < .5:
            s.types.append(TypeDef('qty', 'simple', base=T('NUMBER')))
        nitems = rng.randint(2, 5)
        s.types.append(TypeDef('colour', 'enum', items=rng.sample(ITEMS, nitems)))
        if self.ok('renamed_enum') and rng.random() < .6:
            s.types.append(TypeDef('colour2', 'simple', base=NAMED('colour')))
        if rng.random() < .5:
            items = ['m_on', 'm_off'] + (['m_auto'] if rng.random() < .5 else [])
            if self.ok('enum_prefix_items') and rng.random() < .6:
                # items that are proper prefixes of other items of the same type, longer-first and shorter-first
                items = rng.choice([['m_on_hold', 'm_on', 'm_off'], ['m_off', 'm_offline', 'm_o'], ['mm', 'm', 'mmm'],
                                    ['input_output', 'input', 'output'], ['left_handed', 'right_handed', 'left', 'right']])
                s.tags.add('enum_prefix_items')
            s.types.append(TypeDef('mode', 'enum', items=items))
        if self.ok('defined_aggr'):
            s.types.append(TypeDef('ilist', 'simple', base=AGG('LIST', INT(), 1, None)))
            if rng.random() < .4:
                s.types.append(TypeDef('rarr', 'simple', base=AGG('ARRAY', REAL(), 1, 3)))
        # ---- entities: inheritance forest
        n = n_entities or rng.randint(4, 8)
        ents = []
        names = ['e%d' % i for i in range(n)]
        for i, en in enumerate(names):
            e = Entity(en)
            if i > 0 and rng.random() < .6:
                # subtype of an earlier entity
                cands = names[:i]
                e.supers = [rng.choice(cands)]
                if self.ok('multi_inherit') and i > 2 and rng.random() < .3:
                    other = rng.choice(cands)
                    # second supertype must not be an ancestor/descendant of the first (keeps the graph a DAG without redundancy)
                    if other != e.supers[0]:
                        e.supers.append(other)
            ents.append(e)
        s.entities = ents
        # remove redundant multi-supers (one is ancestor of the other)
        for e in ents:
            if len(e.supers) == 2:
                a, b = e.supers
                if s.is_a(a, b) or s.is_a(b, a):
                    e.supers = [a]
                else:
                    s.tags.add('multi_inherit')
        # a leaf root used as plain reference target/sentinel
        # ---- abstract + supertype expressions
        for e in ents:
            subs = s.subs(e.name)
            if subs and self.ok('abstract') and rng.random() < .3:
                e.abstract = True
                s.tags.add('abstract')
            if len(subs) >= 2 and self.ok('sexpr') and rng.random() < .7:
                e.sexpr = self.sexpr(subs)
                s.tags.add('sexpr')
        # ---- selects (need entity names)
        sel1 = ['label', 'len', rng.choice(names), 'colour']
        rng.shuffle(sel1)
        if not self.ok('select_entity_member'):
            sel1 = [m for m in sel1 if not m.startswith('e')]
        s.types.append(TypeDef('sel1', 'select', members=sel1))
        if self.ok('defined_aggr') and self.ok('aggr_of_entity') and rng.random() < .6:
            s.types.append(TypeDef('elist', 'simple', base=AGG('SET', ENT(rng.choice(names)), 0, None)))   # SET: a second LIST member in one select does not compile (duplicate case LIST_TYPE)
        if self.ok('select_of_select') and rng.random() < .7:
            m2 = ['sel1', 'cnt']
            if self.ok('select_aggr_member') and self.ok('defined_aggr'):
                m2.append('ilist')
                if any(t.name == 'elist' for t in s.types):
                    m2.append('elist')
            s.types.append(TypeDef('sel2', 'select', members=m2))
            s.tags.add('select_of_select')
        if rng.random() < .5 and len(names) >= 2 and self.ok('select_entity_member'):
            s.types.append(TypeDef('esel', 'select', members=rng.sample(names, 2)))
        if self.ok('renamed_select') and rng.random() < .4:
            s.types.append(TypeDef('sel3', 'simple', base=NAMED('sel1')))
        if self.ok('select_chain_members') and any(t.name == 'label2' for t in s.types) and rng.random() < .6:
            # a defined type and the type it renames are both members (specialisation first or base first): the typed value's
            # keyword is the only thing that tells them apart
            m = ['label2', 'label', 'len']
            if rng.random() < .5:
                s.types.append(TypeDef('label3', 'simple', base=NAMED('label2')))
                m.append('label3')
            rng.shuffle(m)
            s.types.append(TypeDef('tsel', 'select', members=m))
            s.tags.add('select_chain_members')
        # ---- attributes
        for e in ents:
            k = rng.randint(1, 5)
            merge = self.ok('merged_attr_decls') and rng.random() < .4
            e.merge_decls = merge
            for j in range(k):
                if merge and j and rng.random() < .6:
                    # several attributes declared in one clause: `a, b : OPTIONAL T;`
                    t, opt = copy.deepcopy(e.attrs[-1].type), e.attrs[-1].optional
                    s.tags.add('merged_attr_decls')
                else:
                    t = self.attr_type(s, names, depth=0)
                    opt = rng.random() < .3
                e.attrs.append(Attr('%s_a%d' % (e.name, j), t, opt))
        # ---- open finding C02 'select over an entity with a renamed-enumeration attribute does not compile':
        #      the select class header uses the renamed enumeration's typedef before it is declared
        if not self.ok('selmember_renamed_enum'):
            members = set()
            for t in s.types:
                if t.kind == 'select':
                    for m in t.members:
                        if s.has_entity(m):
                            members |= set(s.ancestors(m) + [m])
            for e in ents:
                if e.name in members:
                    for a in e.attrs:
                        self._derename(s, a.type)
        # ---- populations without reference cycles need schemas whose references can all be left out
        if not self.ok('required_entity_ref'):
            for e in ents:
                for a in e.attrs:
                    if self._mentions_entity(s, a.type):
                        a.optional = True
        # ---- derived
        for e in ents:
            if e.supers and self.ok('derived_redecl') and rng.random() < .3:
                # redeclare an inherited INTEGER/REAL/STRING attr of a direct supertype as derived
                sup = s.entity(e.supers[0])
                cand = [a for a in sup.attrs if a.type.kind in ('INTEGER', 'REAL', 'STRING', 'BOOLEAN')]
                if cand:
                    a = rng.choice(cand)
                    lit = {'INTEGER': '5', 'REAL': '2.5', 'STRING': "'d'", 'BOOLEAN': 'TRUE'}[a.type.kind]
                    e.derived.append(Derived(a.name, T(a.type.kind), lit, redeclares=(sup.name, a.name)))
                    s.tags.add('derived_redecl')
            if self.ok('derived_new') and rng.random() < .25:
                e.derived.append(Derived('%s_d' % e.name, INT(), '7'))
                s.tags.add('derived_new')
        # ---- inverse
        if self.ok('inverse'):
            for e in ents:
                for a in e.attrs:
                    if a.type.kind == 'entity' and rng.random() < .4:
                        tgt = s.entity(a.type.name)
                        if all(i.name != 'inv_%s' % a.name for i in tgt.inverse):
                            tgt.inverse.append(Inverse('inv_%s' % a.name, e.name, a.name, 'SET', 0, None))
                            s.tags.add('inverse')
        return s

    def _mentions_entity(self, s, t):
        if t.kind == 'entity':
            return True
        if t.kind == 'aggr':
            return self._mentions_entity(s, t.elem)
        if t.kind == 'named':
            td = s.type(t.name)
            if td.kind == 'simple':
                return self._mentions_entity(s, td.base)
            if td.kind == 'select':
                return any(k is None for k, _lt in s.select_leaves(td))
        return False

    def _derename(self, s, t):
        if t.kind == 'named' and t.name == 'colour2':
            t.name = 'colour'
        elif t.kind == 'aggr':
            self._derename(s, t.elem)

    def sexpr(self, subs):
        rng = self.rng
        subs = list(subs)
        rng.shuffle(subs)
        use = subs[:rng.randint(2, len(subs))]   # remaining ones are implicit

        def build(xs, depth):
            if len(xs) == 1:
                return ('leaf', xs[0])
            r = rng.random()
            if r < .45 or depth >= 2:
                return ('oneof', [('leaf', x) for x in xs]) if rng.random() < .7 or len(xs) == 2 else \
                    ('oneof', [build(xs[:len(xs) // 2], depth + 1), build(xs[len(xs) // 2:], depth + 1)])
            k = rng.randint(1, len(xs) - 1)
            return ('and' if r < .7 else 'andor', build(xs[:k], depth + 1), build(xs[k:], depth + 1))
        return build(use, 0)

    def elem_type(self, s, names, depth):
        """Type usable as aggregate element."""
        rng = self.rng
        opts = [('INTEGER', 3), ('REAL', 3), ('label', 2)]
        if self.ok('aggr_of_string'):
            opts.append(('STRING', 3))
        if self.ok('aggr_of_entity'):
            opts.append(('entity', 3))
        if self.ok('aggr_of_enum'):
            opts.append(('colour', 2))
        if self.ok('aggr_of_select'):
            opts.append(('sel1', 2))
        if self.ok('aggr_of_bool'):
            opts.append(('BOOLEAN', 1))
            if self.ok('logical'):
                opts.append(('LOGICAL', 1))
        if self.ok('aggr_of_binary') and self.ok('binary'):
            opts.append(('BINARY', 1))
        if self.ok('nested_aggr') and depth < 2:
            opts.append(('nested', 2))
        ch = rng.choices([o[0] for o in opts], [o[1] for o in opts])[0]
        if ch in SIMPLE:
            return T(ch)
        if ch == 'entity':
            return ENT(rng.choice(names))
        if ch == 'nested':
            return self.aggr_type(s, names, depth + 1)
        return NAMED(ch)

    def aggr_type(self, s, names, depth):
        rng = self.rng
        ak = rng.choice(['LIST', 'LIST', 'ARRAY', 'BAG', 'SET'])
        el = self.elem_type(s, names, depth)
        if ak == 'ARRAY':
            lo = rng.choice([0, 1, 1, -1])
            hi = lo + rng.randint(0, 3)
            opt = self.ok('array_optional') and rng.random() < .3 and el.kind != 'aggr'
            return AGG('ARRAY', el, lo, hi, optional=opt)
        if rng.random() < .4:
            return AGG(ak, el)
        lo = rng.choice([0, 0, 1, 2])
        hi = rng.choice([None, None, lo + 1, lo + 3, 5])
        if hi is not None and hi < max(lo, 1):
            hi = max(lo, 1)
        uniq = ak == 'LIST' and rng.random() < .2
        return AGG(ak, el, lo, hi, unique=uniq)

    def attr_type(self, s, names, depth):
        rng = self.rng
        tn = [t.name for t in s.types]
        opts = [('INTEGER', 4), ('REAL', 4), ('STRING', 4), ('BOOLEAN', 2), ('entity', 4), ('aggr', 6), ('label', 2), ('len', 1), ('cnt', 1),
                ('colour', 3), ('sel1', 3)]
        if self.ok('logical'):
            opts.append(('LOGICAL', 2))
        if self.ok('binary'):
            opts.append(('BINARY', 2))
        if self.ok('number'):
            opts.append(('NUMBER', 2))
        for extra in ('label2', 'flag', 'qty', 'colour2', 'mode', 'ilist', 'rarr', 'sel2', 'esel', 'sel3', 'elist', 'tsel', 'label3'):
            if extra in tn:
                opts.append((extra, 2))
        ch = rng.choices([o[0] for o in opts], [o[1] for o in opts])[0]
        if ch in SIMPLE:
            return T(ch)
        if ch == 'entity':
            return ENT(rng.choice(names))
        if ch == 'aggr':
            return self.aggr_type(s, names, depth)
        return NAMED(ch)


def corpus(seed, n, avoid=(), prefix='s'):
    """n deterministic schemas for a seed."""
    out = []
    for i in range(n):
        rng = random.Random('%s/%d/%d' % (prefix, seed, i))
        g = Gen(rng, avoid)
        out.append(g.schema('%s%d_%d' % (prefix, seed, i)))
    return out
