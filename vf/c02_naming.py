"""C02: identifier-shape matrix and the "found under its declared name" oracle.

The property quantifies over naming.  The dictionary stores every name in the library's "pretty" spelling
(PrettyTmpName: first character and the character after an underscore in upper case ...), exp2cxx carries a private copy
of that function for the names it prints into the generated SchemaInit(), and Registry::FindEntity / FindType /
FindSchema / ObjCreate and the Part 21 reader normalise the name they are GIVEN with the library's copy before the hash
lookup.  A dictionary that lists an entity under a spelling the lookup never produces does not "contain the schema's
entity": an application (and the Part 21 reader) asks by the declared name.  Comparing the names of an iteration over
the registry case-insensitively (vf/c02_model.py) cannot see that, so every schema additionally goes through

  regdump find   FindSchema / FindType / FindEntity + ObjCreate with the DECLARED name, in lower and in upper case,
  regdump read   a Part 21 file with one instance per instantiable entity, written with the entity's keyword,

and compare_lookup() demands that everything the iteration lists is also found, created and read by its declared name.

naming_matrix(seed): one schema whose entities, defined types, enumerations (+ items), selects and attributes are named
with every identifier shape of SHAPES (fixed) plus identifiers drawn from the EXPRESS simple_id grammar (seeded).
Trailing underscores are not generated.
"""
import random
import re
from .model import Schema, TypeDef, Entity, Attr, Derived, INT, REAL, STR, NAMED, ENT, AGG

# tails: appended to one kind letter (e = entity, t = defined type, n = enumeration, s = select, a/b/c = attributes,
# i/j = enumeration items), so that every kind of name is seen in every shape and all names of the schema are distinct
SHAPES = [
    '',                      # one letter
    'b',                     # two letters
    '_b',                    # one-letter segments
    '_b_c',
    'heel_hub',              # the ordinary shape
    'heel__hub',             # run of two underscores
    'heel___hub',            # run of three
    '____b',                 # run of four
    '_____b',                # run of five
    '__b__c',                # two runs of two
    '_b__c',                 # single, then double: the double starts at an odd offset
    '__b_c',
    '_b___c__d',
    '_1b',                   # segment with a leading digit
    '__1b',
    '_1_2',
    'art2',                  # trailing digit
    'art_2',
    'art__2',
    '2_q3',
    'b_c',                   # these three differ only in where the capitals fall after prettifying: Eb_C E_Bc Ebc
    '_bc',
    'bc',
    '_bcd',                  # e_bcd / eb_cd
    'b_cd',
    '_sixty_characters_and_more_' + 'abcdefghij_' * 3 + 'end',           # 64 characters
    '_sixty__characters__and___more_' + 'abcdefghij__' * 3 + 'x_1__end',  # 80 characters, runs of two and three
]


# entities / types of the header-section schema that libstepeditor carries as hand-written classes SdaiFile_name ... :
# a schema that declares one of these names makes exp2cxx emit a class (and create_ function) of the same C++ name, and the
# reader's header instances are then built from whichever definition the dynamic linker picks (open finding, probes
# below).  Mask: the Part 21 read step is left out for such schemas in the randomized workload.
HEADER_NAMES = set(['section_language', 'file_population', 'file_name', 'section_context', 'file_description', 'file_schema',
                    'time_stamp_text', 'section_name', 'context_name', 'schema_name', 'language_name', 'exchange_structure_identifier'])


def header_named(schema):
    return sorted(x.name.lower() for x in schema.entities + schema.types if x.name.lower() in HEADER_NAMES)


def name_shape(n):
    """Seed-independent class of an identifier (what the name normalisation can depend on)."""
    if n.lower() in HEADER_NAMES:
        return 'the name of a Part 21 header-section entity'
    runs = sorted(set(len(r) for r in re.findall(r'_+', n)))
    if not runs:
        s = 'no underscore'
    elif runs == [1]:
        s = 'single underscores'
    else:
        s = 'underscore run of ' + '/'.join(str(r) for r in runs if r > 1)
    if re.search(r'_\d', n):
        s += ', digit after underscore'
    if len(n) == 1:
        s += ', one letter'
    if len(n) >= 60:
        s += ', 60+ characters'
    return s


def random_tail(rng):
    """A tail from the simple_id grammar: segments of letters / digits joined by underscore runs (no trailing one)."""
    nseg = rng.choice([1, 2, 2, 3, 3, 4, 6])
    out = ''
    for k in range(nseg):
        ln = rng.choice([1, 1, 2, 3, 5, 9])
        seg = ''.join(rng.choice('abcdefghijklmnopqrstuvwxyz' if rng.random() < .8 else '0123456789') for _ in range(ln))
        out += '_' * rng.choice([1, 1, 1, 2, 2, 3, 4]) + seg
    if rng.random() < .3:
        out = out.lstrip('_')
    return out


def naming_matrix(seed, name=None, n_random=8, fixed=True):
    rng = random.Random('c02naming/%d/%s' % (seed, name))
    tails = list(SHAPES) if fixed else []
    assert not any(k + t in RESERVED for t in tails for k in 'etnsabcdlij')
    have = set(tails)
    while len(tails) < (len(SHAPES) if fixed else 0) + n_random:
        t = random_tail(rng)
        # distinct after case folding and not one of the EXPRESS reserved words when prefixed
        if t in have or any(k + t in RESERVED for k in 'etnsabcdlij'):
            continue
        have.add(t)
        tails.append(t)
    s = Schema(name or 'xnm__s%d_1q' % seed)
    prev = None
    for k, t in enumerate(tails):
        s.types.append(TypeDef('t' + t, 'simple', base=[STR(), INT(), REAL()][k % 3]))
        s.types.append(TypeDef('n' + t, 'enum', items=['i' + t, 'j' + t]))
    for k, t in enumerate(tails):
        s.types.append(TypeDef('s' + t, 'select', members=['t' + t, 'e' + t]))
    for k, t in enumerate(tails):
        e = Entity('e' + t)
        e.attrs.append(Attr('a' + t, NAMED('t' + t), optional=(k % 2 == 1)))
        e.attrs.append(Attr('b' + t, NAMED('n' + t), optional=(k % 3 == 1)))
        if k % 2 == 0:
            e.attrs.append(Attr('c' + t, NAMED('s' + tails[k - 1]), optional=True))
        else:
            e.attrs.append(Attr('c' + t, ENT('e' + tails[k - 1]), optional=True))
        if k % 4 == 2:
            e.derived.append(Derived('d' + t, INT(), '1'))
        if k % 3 == 1 and prev:
            e.supers = [prev]
        if k % 5 == 4 and prev:
            e.attrs.append(Attr('l' + t, AGG('LIST', ENT(prev), 0, None), optional=True))
        s.entities.append(e)
        prev = e.name
    s.tags.add('naming:identifier shapes')
    return s


RESERVED = set('''abs abstract acos aggregate alias and andor array as asin atan bag based_on begin binary blength boolean by case
const_e constant cos derive div else end end_alias end_case end_constant end_entity end_function end_if end_local end_procedure
end_repeat end_rule end_schema end_subtype_constraint end_type entity enumeration escape exists extensible exp fixed false for
format from function generic generic_entity hibound hiindex if in insert integer inverse length like list lobound local log log10
log2 logical loindex mod not number nvl odd of oneof optional or otherwise pi procedure query real remove renamed reference
repeat return rolesof rule schema select self set sin sizeof skip sqrt string subtype subtype_constraint supertype tan then to
total_over true type typeof unique unknown until use usedin value value_in value_unique var where while with xor'''.split())


# ----------------------------------------------------------------------------------------------- lookup by declared name
def spellings(n):
    return [n.lower(), n.upper()]


def find_list(schema):
    """Text for `regdump find`."""
    o = []
    for sp in spellings(schema.name):
        o.append('S %s' % sp)
    for t in schema.types:
        for sp in spellings(t.name):
            o.append('T %s' % sp)
    for e in schema.entities:
        for sp in spellings(e.name):
            o.append('E %s' % sp)
    return '\n'.join(o) + '\n'


def _has_and(x):
    if x is None or x[0] == 'leaf':
        return False
    if x[0] == 'oneof':
        return any(_has_and(y) for y in x[1])
    return x[0] == 'and' or _has_and(x[1]) or _has_and(x[2])


def p21_by_keyword(schema):
    """-> (Part 21 text with one all-unset instance per entity that may stand alone, {id: entity name}).
    Left out: ABSTRACT entities and entities below a supertype whose SUPERTYPE OF expression has an AND (they are only
    valid in a complex instance; the reader refuses the simple form)."""
    ids = {}
    lines = []
    k = 0
    for e in schema.entities:
        if e.abstract or any(_has_and(schema.entity(a).sexpr) for a in schema.ancestors(e.name)):
            continue
        k += 1
        pars = ['*' if der else '$' for _o, a, der in schema.all_attrs(e.name) if not a.name.lower().startswith('self\\')]
        lines.append('#%d=%s(%s);' % (k, e.name.upper(), ','.join(pars)))
        ids[k] = e.name
    text = ("ISO-10303-21;\nHEADER;\nFILE_DESCRIPTION((''),'2;1');\nFILE_NAME('kw.p21','2026-01-01T00:00:00',(''),(''),'','','');\n"
            "FILE_SCHEMA(('%s'));\nENDSEC;\nDATA;\n%s\nENDSEC;\nEND-ISO-10303-21;\n" % (schema.name.upper(), '\n'.join(lines)))
    return text, ids


def parse_lookup(text):
    import json
    finds, reads, summary, done, begun = [], {}, None, False, []
    for line in text.splitlines():
        if not line.startswith('{'):
            continue
        try:
            o = json.loads(line)
        except ValueError:
            continue
        k = o.get('k')
        if k == 'find':
            finds.append(o)
        elif k == 'find-begin':
            begun.append(o.get('name'))
        elif k == 'read-inst':
            reads[o['id']] = o
        elif k == 'read':
            summary = o
        elif k == 'done':
            done = True
    return dict(finds=finds, reads=reads, summary=summary, done=done, begun=begun)


def compare_lookup(schema, dump, finds, reads, ids, chk=None):
    """-> [(key, what)].  Judges only names the registry iteration lists (a name that is missing altogether is the
    business of the set comparison in c02_model.compare)."""
    out = []
    lc = lambda x: x.lower() if isinstance(x, str) else x
    reg_e = set(lc(e['name']) for e in dump['entities'])
    reg_t = set(lc(t['d'].get('name')) for t in dump['types'])
    reg_s = set(lc(x) for x in dump['schemas'])
    created_by_iteration = set(k for k, v in dump['insts'].items() if v.get('created'))
    kinds = {}
    for t in schema.types:
        kinds[t.name.lower()] = {'simple': 'defined type', 'enum': 'enumeration', 'select': 'select'}[t.kind]
    fmap = {}
    for f in finds or []:
        fmap[(f.get('what'), f.get('name'))] = f

    def seen(*t):
        if chk is not None:
            chk.seen(*t)

    def judge(what, decl, registered, kind):
        if decl.lower() not in registered:
            return
        shape = name_shape(decl)
        for sp in spellings(decl):
            f = fmap.get((what, sp))
            if f is None:
                continue
            if chk is not None:
                chk.ev()
            case = 'lower case' if sp == decl.lower() else 'upper case'
            if not f.get('found') or lc(f.get('dname')) != decl.lower():
                out.append(('lookup|%s named with %s|registered, but not found by its declared name' % (kind, shape),
                            '%s %s is listed by the registry iteration, Registry::Find%s( "%s" ) (%s) gives %s'
                            % (kind, decl, {'S': 'Schema', 'T': 'Type', 'E': 'Entity'}[what], sp, case, f.get('dname') if f.get('found') else 'nothing')))
            elif what == 'E' and decl.lower() in created_by_iteration and (not f.get('created') or lc(f.get('ename')) != decl.lower()):
                out.append(('lookup|%s named with %s|ObjCreate by the declared name gives no instance' % (kind, shape),
                            'Registry::ObjCreate( "%s" ) (%s) gives %s' % (sp, case, f.get('ename') if f.get('created') else 'no instance')))
        seen('lookup', kind, shape)
        if chk is not None:
            chk.tag('found by declared name:' + kind)
            chk.tag('name shape:' + shape)

    if finds is not None:
        judge('S', schema.name, reg_s, 'schema')
        for t in schema.types:
            judge('T', t.name, reg_t, kinds[t.name.lower()])
        for e in schema.entities:
            judge('E', e.name, reg_e, 'entity')
    if reads is not None:
        for i, en in sorted(ids.items()):
            if en.lower() not in reg_e or en.lower() not in created_by_iteration:
                continue
            r = reads.get(i)
            if r is None:
                continue
            if chk is not None:
                chk.ev()
            seen('read by keyword', name_shape(en))
            if not r.get('present') or lc(r.get('ename')) != en.lower():
                out.append(('lookup|entity named with %s|Part 21 instance written with the entity keyword is not read' % name_shape(en),
                            '#%d=%s(...): %s' % (i, en.upper(), 'instance of %s' % r.get('ename') if r.get('present') else 'no instance in the instance manager')))
    return out


# ----------------------------------------------------------------------------------------------- probes of the open finding
def _p_header_entity(ename, attrs):
    def build():
        from . import model as M
        return M.Schema('pr_c02h' + ename[5:7], [], [M.Entity(ename, attrs=attrs)]), []
    return build


def register_probes():
    from . import probes
    from .probes import Probe
    p = Probe('entity named file_name (class SdaiFile_name also exists in libstepeditor)', _p_header_entity('file_name', [Attr('n', INT())]),
              masks=dict(schema=['part21_header_entity_names']))
    p.read_header_named = True
    probes.register('C02', p)
    p = Probe('entity named file_schema (class SdaiFile_schema also exists in libstepeditor)', _p_header_entity('file_schema', [Attr('n', INT(), True)]),
              masks=dict(schema=['part21_header_entity_names']))
    p.read_header_named = True
    probes.register('C02', p)


register_probes()
