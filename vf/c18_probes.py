"""C18: deterministic probes of open findings and the masks they justify (same idea as vf/probes.py).

A probe is a fixed schema that exercises exactly one masked feature and goes through the same oracle as the random
workload, so the finding is demonstrated on every run (KNOWN-FINDING line) and disappears when it is repaired.

Masks are tied to the LISTED finding: a probe's masks are in force only while one of its keys is an open entry of the
known findings.  Deleting the entry (because the defect was repaired) puts the feature back into the random workload.

Probes carry no entity attribute unless the feature needs one: on a tree where the generator dies on every entity attribute
(missing strdup prototype) an attribute-free probe still reaches the compile / import stage.
"""
from . import model as M


class Probe(object):
    def __init__(self, name, build, keys=(), masks=(), shared_masks=(), unless_open=()):
        self.name, self.build, self.keys, self.masks, self.shared_masks = name, build, tuple(keys), tuple(masks), tuple(shared_masks)
        self.unless_open = tuple(unless_open)     # fixed coverage case that is skipped while one of these findings is open

    def schema(self):
        return self.build()


PROBES = []


def masks(open_keys):
    a, b = set(), set()
    for p in PROBES:
        if any(k in open_keys for k in p.keys):
            a |= set(p.masks)
            b |= set(p.shared_masks)
    return a, b


def active(open_keys):
    return [p for p in PROBES if not any(k in open_keys for k in p.unless_open)]


def _ent(name, supers=(), attrs=()):
    return M.Entity(name, supers=list(supers), attrs=[M.Attr(n, t) for n, t in attrs])


STR_T = [M.TypeDef('label', 'simple', base=M.STR())]


# ---- no masked feature: a schema without attributes (types, selects, a small hierarchy).  Passes on a sound generator; on the
# unchanged tree it shows the state every module is in (wrong runtime package name in the import lines).
def _p_plain():
    return M.Schema('pb_plain', [M.TypeDef('label', 'simple', base=M.STR()), M.TypeDef('cnt', 'simple', base=M.INT()),
                                 M.TypeDef('onoff', 'enum', items=['m_on', 'm_off']),
                                 M.TypeDef('pick', 'select', members=['label', 'e1', 'onoff']),
                                 M.TypeDef('ilist', 'simple', base=M.AGG('LIST', M.INT(), 1, None))],
                    [_ent('e0'), _ent('e1', ['e0']), _ent('e2'), _ent('e3', ['e1', 'e2'])])


PROBES.append(Probe('attribute-free schema', _p_plain,
                    keys=['import|import of the runtime package|ModuleNotFoundError (package SCL)']))


# ---- the generator dies on any entity attribute
def _p_attr():
    return M.Schema('pb_attr', [], [_ent('e0', attrs=[('a0', M.INT())])])


PROBES.append(Probe('one entity attribute', _p_attr, keys=['crash|entity attribute|generator killed by a signal']))


# ---- Python keywords outside the generator's escape list (class, pass, property)
def _p_kw_hard():
    return M.Schema('pb_kwhard', [], [_ent('lambda'), _ent('e1', ['lambda'])])


PROBES.append(Probe('entity named lambda', _p_kw_hard,
                    keys=['compile|other Python keyword as entity in class statement|SyntaxError'], masks=['id:kw_hard']))


# ---- defined type names are never escaped
def _p_type_kw():
    return M.Schema('pb_typekw', [M.TypeDef('class', 'simple', base=M.STR())], [_ent('e0')])


PROBES.append(Probe('defined type named class', _p_type_kw,
                    keys=["compile|keyword of the generator's escape list as defined type in class statement|SyntaxError"],
                    masks=['id:kw_doc:type_simple', 'id:kw_hard:type_simple', 'id:kw_doc:attr_type_defined', 'id:kw_hard:attr_type_defined']))


# ---- rename of an enumeration whose name is escaped
def _p_enum_rename_kw():
    return M.Schema('pb_enumren', [M.TypeDef('pass', 'enum', items=['yes_p', 'no_p']), M.TypeDef('enr', 'simple', base=M.NAMED('pass'))], [_ent('e0')])


PROBES.append(Probe('rename of enumeration named pass', _p_enum_rename_kw,
                    keys=["compile|keyword of the generator's escape list as enumeration type in other statement|SyntaxError"],
                    masks=['renamed_escaped_enum']))


# ---- aggregate element naming an entity whose class name is escaped
def _p_aggr_elem_kw():
    return M.Schema('pb_aggrkw', [M.TypeDef('tagg', 'simple', base=M.AGG('SET', M.ENT('class'), 1, 3))], [_ent('class')])


PROBES.append(Probe('aggregate of entity named class', _p_aggr_elem_kw,
                    keys=["typedef|defined aggregate of entity named by a keyword of the generator's escape list|element type differs"],
                    masks=['id:kw_doc:aggr_elem', 'id:kw_hard:aggr_elem']))


# ---- enumeration items come out in hash order
def _p_enum_order():
    return M.Schema('pb_enumord', [M.TypeDef('colour', 'enum', items=['red', 'green', 'blue', 'cyan', 'amber'])], [_ent('e0')])


PROBES.append(Probe('five item enumeration', _p_enum_order, keys=['typedef|enumeration|items in another order than declared']))


# ---- NUMBER / BINARY have no name in the generator's type-name table
def _p_num_bin():
    return M.Schema('pb_numbin', [M.TypeDef('nlist', 'simple', base=M.AGG('LIST', M.T('NUMBER'), 0, None)),
                                  M.TypeDef('bset', 'simple', base=M.AGG('SET', M.T('BINARY'), 1, 4))], [_ent('e0')])


PROBES.append(Probe('aggregates of NUMBER and BINARY', _p_num_bin,
                    keys=['typedef|defined aggregate of NUMBER|element type differs', 'typedef|defined aggregate of BINARY|element type differs'],
                    masks=['defined_aggr_elem:NUMBER', 'defined_aggr_elem:BINARY']))


# ---- negative aggregate bound
def _p_neg_bound():
    return M.Schema('pb_negb', [M.TypeDef('arr', 'simple', base=M.AGG('ARRAY', M.INT(), -2, 2))], [_ent('e0')])


PROBES.append(Probe('array with a negative bound', _p_neg_bound,
                    keys=['import|defined aggregate with a negative bound|NotImplementedError'], masks=['neg_bound']))


# ---- supertypes are re-ordered by inheritance depth
def _p_shallow_first():
    return M.Schema('pb_order', [], [_ent('p', attrs=[('p_a', M.INT())]), _ent('p1', ['p'], [('p1_a', M.STR())]),
                                     _ent('q', attrs=[('q_a', M.REAL())]), _ent('x', ['q', 'p1'], [('x_a', M.INT())])])


PROBES.append(Probe('shallower supertype declared first', _p_shallow_first,
                    keys=['bases|several supertypes, shallower declared first|direct bases differ from the declared supertype list',
                          'signature|several supertypes, shallower declared first|parameter order differs'],
                    masks=['shape:multi_shallow_first'], shared_masks=['multi_inherit']))


# ---- diamond: the common ancestor's attributes are taken once per path
def _p_diamond():
    return M.Schema('pb_diamond', [], [_ent('a', attrs=[('a_a', M.INT())]), _ent('b', ['a'], [('b_a', M.STR())]),
                                       _ent('c', ['a'], [('c_a', M.REAL())]), _ent('d', ['b', 'c'], [('d_a', M.INT())])])


PROBES.append(Probe('diamond', _p_diamond,
                    keys=['signature|an ancestor inherited along two paths|inherited parameter repeated'],
                    masks=['shape:diamond', 'shape:diamond_tail', 'shape:wide_diamond'], shared_masks=['multi_inherit']))


# ---- the supertype order of t contradicts the supertype order of one of its supertypes (never drawn by the random generator:
# vf/c18_gen.py keeps to schemas whose declared orders Python can linearise; the permutations of 'full diamond named at once' in
# vf/c18_matrix.py show the same finding)
def _p_contradiction():
    return M.Schema('pb_contra', [], [_ent('a'), _ent('b', ['a']), _ent('c', ['a']), _ent('d', ['b', 'c']), _ent('t', ['a', 'c', 'b', 'd'])])


PROBES.append(Probe('supertypes c, b named against d SUBTYPE OF (b, c)', _p_contradiction,
                    keys=['import|several supertypes, two declared in the opposite order of the supertype list of another|'
                          'TypeError (no consistent method resolution order)']))


# ================================================================================================================
# fixed coverage cases (no finding attached): what the quick tier must see whatever the seed draws
KW_HARD_KEY = 'compile|other Python keyword as entity in class statement|SyntaxError'


def _c_kwdoc_entities():
    return M.Schema('pc_kwent', [], [_ent('class', attrs=[('pass', M.INT()), ('c_b', M.STR())]),
                                     _ent('e1', ['class'], [('property', M.ENT('class')), ('e1_b', M.REAL())])])


def _c_kwdoc_types():
    return M.Schema('pc_kwtyp', [M.TypeDef('class', 'enum', items=['pass', 'other_item']),
                                 M.TypeDef('property', 'select', members=['class', 'e0']),
                                 M.TypeDef('sel2', 'select', members=['property', 'e1'])],
                    [_ent('e0', attrs=[('a', M.NAMED('class')), ('b', M.NAMED('property'))]), _ent('e1', ['e0'], [('c', M.INT())])])


def _c_kwhard():
    return M.Schema('pc_kwhard', [M.TypeDef('try', 'enum', items=['yield', 'del', 'plain_item']),
                                  M.TypeDef('except', 'select', members=['lambda', 'try'])],
                    [_ent('lambda', attrs=[('import', M.INT()), ('l_b', M.NAMED('try'))]),
                     _ent('is', ['lambda'], [('with', M.ENT('lambda')), ('is_b', M.NAMED('except'))]),
                     _ent('e2', ['is'], [('global', M.STR())])])


def _c_multi():
    return M.Schema('pc_multi', [], [_ent('p', attrs=[('p_a', M.INT()), ('p_b', M.STR())]), _ent('q', attrs=[('q_a', M.REAL())]),
                                     _ent('w', attrs=[('w_a', M.INT())]), _ent('x', ['p', 'q', 'w'], [('x_a', M.STR())]),
                                     _ent('p1', ['p'], [('p1_a', M.INT())]), _ent('y', ['p1', 'q'], [('y_a', M.INT())]),
                                     _ent('z', ['y'], [('z_a', M.REAL())]), _ent('n', ['w', 'q'])])


PROBES.append(Probe('coverage: class/pass/property as entity, supertype, attribute', _c_kwdoc_entities))
PROBES.append(Probe('coverage: class/pass/property as enumeration, item, select, member, attribute type', _c_kwdoc_types))
PROBES.append(Probe('coverage: other Python keywords in every role', _c_kwhard, unless_open=[KW_HARD_KEY]))
PROBES.append(Probe('coverage: several supertypes (equal depth, deeper first, three), subtype of such', _c_multi))
