"""Shared plumbing for the checks that drive the runtime libraries through a generated schema library."""
import os
import re
import shutil
import tempfile
from . import build, run, gen_schema, ref_p21

HARNESSES = ['p21mon.cc', 'p21read_real.cc']


class Lib(object):
    """One generated schema + its compiled library and harness binaries."""

    def __init__(self, schema, d, fail):
        self.schema, self.dir, self.fail = schema, d, fail
        self.env = None

    def exe(self, name):
        return os.path.join(self.dir, name)


def build_libs(schemas, flavour='san', harnesses=HARNESSES, lazy=False):
    bdir = build.core(flavour)
    res = build.parallel_schema_libs(flavour, [s.text() for s in schemas], harnesses, lazy)
    libs = []
    for s, (d, fail) in zip(schemas, res):
        l = Lib(s, d, fail)
        l.env = build.env(bdir)
        libs.append(l)
    return libs


def report_build_failures(chk, libs, prop_says_compiles=False):
    """A generated valid schema that exp2cxx rejects / whose code does not compile.

    For C02 that is a violation of the property ("compiles"); for the other checks it makes the
    schema unusable: counted, and inconclusive if it happens to most schemas."""
    good = []
    for l in libs:
        if l.fail is None:
            good.append(l)
            continue
        chk.count('schema_build_failures')
        if prop_says_compiles:
            stage = l.fail.get('stage')
            sk = run.san_kind(l.fail.get('err', '')) or ('rc=%s' % l.fail.get('rc'))
            chk.violation('build|%s|%s' % (stage, sk if stage == 'exp2cxx' else 'compile error'),
                          'generated valid schema fails at %s: %s' % (stage, l.fail.get('err', '')[-600:]),
                          files={'schema.exp': l.schema.text(), 'log.txt': l.fail.get('err', '')})
    if len(good) * 2 < len(libs):
        fl = [l.fail for l in libs if l.fail]
        chk.inconc('more than half of the generated schemas could not be built (%d of %d); first: %s' % (len(libs) - len(good), len(libs), str(fl[0])[:500]))
    return good


class Scratch(object):
    def __init__(self, prefix='vf'):
        self.d = tempfile.mkdtemp(prefix=prefix, dir='/dev/shm')

    def path(self, name):
        return os.path.join(self.d, name)

    def write(self, name, text):
        p = self.path(name)
        with open(p, 'wb' if isinstance(text, bytes) else 'w') as f:
            f.write(text)
        return p

    def read(self, name, binary=False):
        try:
            with open(self.path(name), 'rb') as f:
                b = f.read()
            return b if binary else b.decode('utf-8', 'replace')
        except OSError:
            return None

    def close(self):
        shutil.rmtree(self.d, ignore_errors=True)

    def __enter__(self):
        return self

    def __exit__(self, *a):
        self.close()


def p21read(lib, infile, outfile, strict=False, timeout=60, budget=None):
    cmd = [lib.exe('p21read_real')] + (['-s'] if strict else []) + [infile, outfile]
    return run.run(cmd, cwd=os.path.dirname(infile), env=lib.env, timeout=timeout, budget=budget, steplog=bool(budget))


def mon(lib, ops, cwd, timeout=60, budget=None, steplog=False):
    return run.run([lib.exe('p21mon')] + list(ops), cwd=cwd, env=lib.env, timeout=timeout, budget=budget, steplog=steplog)


_OP = re.compile(r'^OP (\S+)(.*)$', re.M)


def mon_ops(out):
    """[(op, {k:int})] from p21mon's stdout."""
    res = []
    for m in _OP.finditer(out):
        kv = {}
        for t in m.group(2).split():
            if '=' in t:
                k, v = t.split('=', 1)
                try:
                    kv[k] = int(v)
                except ValueError:
                    kv[k] = v
        res.append((m.group(1), kv))
    return res


def mon_msgs(out):
    return [l[4:] for l in out.splitlines() if l.startswith('MSG ')]


def parse_dump(text):
    """-> (n, header[(id, text)], insts[(id, state, name, idx, sfid, text)])"""
    n = None
    hdr, insts = [], []
    if text is None:
        return None, [], []
    for blk in text.split('@@E\n'):
        blk = blk.lstrip('\n')
        if blk.startswith('@@N'):
            first, _, rest = blk.partition('\n')
            n = int(first.split()[1])
            blk = rest
        if blk.startswith('@@H'):
            first, _, rest = blk.partition('\n')
            hdr.append((int(first.split()[1]), rest))
        elif blk.startswith('@@I'):
            first, _, rest = blk.partition('\n')
            f = first.split()
            insts.append((int(f[1]), f[2], f[3], int(f[4].split('=')[1]), int(f[5].split('=')[1]), rest))
    return n, hdr, insts


def parse_inst_text(text):
    """Parse one instance as written by STEPwrite ('#1=KW(...);') with the reference parser."""
    p = ref_p21.Parser(text)
    r = p.expect('ref')
    iid = int(r[1][1:])
    p.expect('p', '=')
    if p.peek()[0] == 'p' and p.peek()[1] == '(':
        p.next()
        parts = []
        while not (p.peek()[0] == 'p' and p.peek()[1] == ')'):
            parts.append(p.record())
        p.next()
        inst = ref_p21.Inst(iid, parts, True)
    else:
        inst = ref_p21.Inst(iid, [p.record()], False)
    p.expect('p', ';')
    return inst


TS = re.compile(r"(FILE_NAME\s*\(\s*'(?:[^']|'')*'\s*,\s*)'(?:[^']|'')*'")


def mask_timestamp(text):
    return TS.sub(lambda m: m.group(1) + "'<ts>'", text, count=1)


def attr_shape(schema, inst, part_idx, attr_idx):
    """Shape string of the attribute at (part, index) of a population instance, from the model."""
    kw = inst.parts[part_idx][0].lower()
    try:
        if inst.complex:
            lst = schema.own_attrs(kw, [p[0].lower() for p in inst.parts])
        else:
            lst = schema.all_attrs(kw)
        owner, a, der = lst[attr_idx]
        return ('OPTIONAL ' if a.optional else '') + a.type.shape(schema) + (' in complex part' if inst.complex else '')
    except (IndexError, KeyError):
        return 'unknown'


def std_corpus(seed, n, avoid=()):
    return gen_schema.corpus(seed, n, avoid)


def shrink_instances(pop, still_fails, max_runs=60):
    """Greedy instance-level reduction: drop instances nobody (remaining) references while `still_fails(pop)`."""
    from .gen_p21 import Population
    cur = list(pop.insts)
    runs = 0
    changed = True
    while changed and runs < max_runs:
        changed = False
        for inst in list(cur):
            if len(cur) <= 1:
                break
            rest = [i for i in cur if i is not inst]
            refd = set()
            for i in rest:
                refd.update(ref_p21.inst_refs(i))
            if inst.id in refd:
                continue
            cand = Population(pop.schema, rest, pop.header)
            runs += 1
            if still_fails(cand):
                cur = rest
                changed = True
            if runs >= max_runs:
                break
    return Population(pop.schema, cur, pop.header)


def inst_shapes(schema, inst):
    out = []
    for pi, (kw, vals) in enumerate(inst.parts):
        for j in range(len(vals)):
            out.append(attr_shape(schema, inst, pi, j))
    return out
