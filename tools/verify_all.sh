#!/bin/bash
# tools/verify_all.sh [seeds...]  - runs every claimed check's quick tier for each seed and prints one summary line per run
cd /verif
SEEDS="${@:-1}"
CHECKS=$(python3 -c "import json; print(' '.join(c['property_id'] for c in json.load(open('MANIFEST.json'))['checks']))")
for s in $SEEDS; do for c in $CHECKS; do
  out=$(VERIF_SEED=$s ./check $c 2>&1); rc=$?
  echo "$(echo "$out" | grep "^$c tier" | tail -1) [rc=$rc]"
  if [ $rc -ne 0 ]; then echo "$out" | grep "key:\|INCONC\|Traceback" | head -5; fi
done; done
