#!/bin/bash
# tools/collect_seeded.sh Cxx <round-letter> <first-free-index>: copy /tmp/mut-Cxx<r>/deliver/{1,2} into seeded/Cxx-<n>, <n+1> and evaluate
c=$1; r=$2; n=$3
cd /verif
for k in 1 2; do
  id=$c-$((n + k - 1))
  mkdir -p seeded/$id
  cp -r /tmp/mut-$c$r/deliver/$k/* seeded/$id/
  git -C /repo apply --check /verif/seeded/$id/patch.diff && echo "$id applies"
  echo "=== $id"
  python3 tools/try_seeded.py seeded/$id/patch.diff $c --seeds 1,2 2>&1 | tail -14
done
