#!/usr/bin/env python3
"""tools/try_seeded.py <patch.diff> <Cxx> [--seeds 1,2] [--tier quick]
Applies a seeded change to a scratch worktree of /repo HEAD (outside /repo and /verif), runs the check against it
(VERIF_REPO, separate evidence/replay dirs so /verif/evidence stays untouched), prints exit status and new keys, removes the worktree."""
import argparse, os, subprocess, sys, shutil, json, hashlib
ap = argparse.ArgumentParser()
ap.add_argument('patch'); ap.add_argument('prop'); ap.add_argument('--seeds', default='1'); ap.add_argument('--tier', default='quick'); ap.add_argument('--keep', action='store_true')
a = ap.parse_args()
tag = hashlib.sha1(os.path.abspath(a.patch).encode()).hexdigest()[:8]
wt = '/var/tmp/seedwt-%s' % tag
work = '/var/tmp/seedwork-%s' % tag
subprocess.run(['git', '-C', '/repo', 'worktree', 'remove', '--force', wt], capture_output=True)
r = subprocess.run(['git', '-C', '/repo', 'worktree', 'add', '--detach', wt, 'HEAD'], capture_output=True, text=True)
assert r.returncode == 0, r.stderr
try:
    r = subprocess.run(['git', '-C', wt, 'apply', os.path.abspath(a.patch)], capture_output=True, text=True)
    if r.returncode != 0:
        print('PATCH DOES NOT APPLY:', r.stderr[:500]); sys.exit(3)
    res = []
    for seed in a.seeds.split(','):
        env = dict(os.environ, VERIF_REPO=wt, VERIF_WORK=work, VERIF_SEED=seed, VERIF_EVIDENCE_DIR=work + '/evidence', VERIF_REPLAY_DIR=work + '/replay')
        r = subprocess.run(['./check', a.prop, '--tier', a.tier], cwd='/verif', env=env, capture_output=True, text=True)
        keys = [l.strip()[5:] for l in r.stdout.splitlines() if l.strip().startswith('key: ')]
        print('seed %s -> exit %d; new keys: %d' % (seed, r.returncode, len(keys)))
        for k in keys[:8]:
            print('    ', k[:200])
        if r.returncode == 2:
            print(r.stdout[-800:]); print(r.stderr[-800:])
        res.append(r.returncode)
    print('CAUGHT' if any(x == 1 for x in res) else ('INCONCLUSIVE' if any(x == 2 for x in res) else 'MISSED'))
finally:
    if not a.keep:
        subprocess.run(['git', '-C', '/repo', 'worktree', 'remove', '--force', wt], capture_output=True)
        shutil.rmtree(work, ignore_errors=True)
