#!/usr/bin/env python3
"""Prints the prompt for an independent 'seeded change' sub-agent for one property (only the property text + a worktree path)."""
import json, sys
pid = sys.argv[1]
n = sys.argv[2] if len(sys.argv) > 2 else 'a'
p = [json.loads(l) for l in open('/verif/properties.jsonl') if json.loads(l)['id'] == pid][0]
wt = '/tmp/mut-%s%s' % (pid, n)
# later rounds: name the changes earlier rounds already made (descriptions of source changes only, nothing about the checks)
import glob, os
prev = []
V = os.path.dirname(os.path.dirname(os.path.abspath(__file__)))
try:
    table = json.load(open(os.path.join(V, 'seeded', 'results_extra.json')))
except Exception:
    table = {}
for d in sorted(glob.glob(os.path.join(V, 'seeded', pid + '-*'))):
    k = os.path.basename(d)
    try:
        m = json.load(open(os.path.join(d, 'meta.json')))
    except Exception:
        m = {}
    desc = (table.get(k) or [m.get('breaks_clause', '')])[0]
    prev.append('  - %s: %s' % (', '.join(m.get('files_changed', []) or ['?']), str(desc)[:300]))
already = ''
if prev and n != 'a':
    already = ('\n\nOther developers have ALREADY delivered the following changes for this property; do not repeat them or close variants - '
               'pick other functions, other clauses of the property and other kinds of trigger:\n' + '\n'.join(prev))
print('''You are helping to evaluate a verification effort by playing a careless-but-plausible developer. The software is stepcode (STEPcode: an ISO 10303-11 EXPRESS schema parser/resolver that generates C++/Python classes, plus runtime libraries that read and write STEP Part 21 files), a git repository at /repo. Do NOT work in /repo itself and do NOT read or use anything under /verif. Create your own scratch git worktree and work only there:

    git -C /repo worktree add --detach %(wt)s HEAD

Here is a semantic property of stepcode that is supposed to always hold:

TITLE: %(title)s
STATEMENT: %(statement)s
QUANTIFIED OVER: %(quant)s

Your job: produce TWO different, independent source changes to stepcode (each a small patch of the kind a real developer could make by mistake during a refactoring, optimisation or feature change - not sabotage that is obvious at a glance, no dead-code tricks, no #ifdefs, no special-casing of magic input values) such that each change BREAKS the property above while the code still COMPILES and the repository's EXISTING TEST SUITE STILL PASSES. Prefer changes that need something specific to manifest - an unusual but legal input, a particular multi-step sequence of operations, a value at a boundary, two cooperating sites that each look fine alone, an error path - rather than ones that any ordinary use would expose at once. The two changes should be in different functions (ideally different files) and break different clauses of the property.

For each change deliver, under %(wt)s/deliver/<1|2>/ :
  * patch.diff   - `git diff` of the source change against HEAD (sources only, applies with `git apply` in a clean checkout of HEAD)
  * a demonstration: a small program, script or input file(s) + the exact commands (demo.sh) that FAIL / show the wrong behaviour with the change and PASS / show the right behaviour without it. The demonstration must exercise the real code (the built tools or libraries), not re-implement it.
  * meta.json    - {"property": "%(pid)s", "breaks_clause": "...", "needs_to_manifest": "...", "files_changed": [...], "what_you_ran": "commands and their outcome, incl. which existing tests you ran"}

Practical hints. Build out of tree, e.g.:
    cmake -G Ninja -S %(wt)s -B %(wt)s-build -DCMAKE_BUILD_TYPE=RelWithDebInfo -DSC_ENABLE_TESTING=ON -DSC_BUILD_SCHEMAS="%(wt)s/test/unitary_schemas/inverse_attr.exp;%(wt)s/data/ap203/ap203.exp" && ninja -C %(wt)s-build
(building ALL schemas takes very long; pick the few schemas/tests relevant to the code you touch; test/unitary_schemas/*.exp are small; `ctest --test-dir %(wt)s-build -j8` then runs the tests that exist for that configuration; the tool binaries are in bin/, e.g. check-express, exppp, exp2cxx, exp2python, p21read_sdai_<schema>, lazy_sdai_<schema>; the pure-Python runtime is under src/exp2python/python). The full suite is 258 tests (generate/build/read-write of 20 shipped schemas + unit tests); you cannot run all of it in reasonable time - run what is relevant and say what you ran; your change must not make any existing test fail, so think about which existing tests touch the code you change (grep the test directories: test/, src/*/test, src/test, test/cpp, test/p21, test/unitary_schemas).
The machine has 16 cores shared with other jobs. Keep everything under %(wt)s and %(wt)s-build (and a second build dir for the unmodified HEAD if you need one to show the demonstration passes without the change). When you are done leave %(wt)s/deliver in place (I will collect it), remove the build directories, and reply with a short summary: for each change the file/function, the clause broken, what is needed to manifest, and how the demonstration shows it.%(already)s''' % dict(already=already, wt=wt, pid=pid, title=p['title'], statement=p['statement'], quant=p['quantifier']['text']))
