#!/usr/bin/env python3
"""Maintains seeded/RESULTS.md and the 'evaluation' field of each seeded/<id>/meta.json from the table below."""
import json, os
V = os.path.dirname(os.path.dirname(os.path.abspath(__file__)))
RES = {
 'C01-1': ("GetLiteralStr: closing apostrophe right after a backslash is taken for an escape", "string ending in an escaped backslash, \\X2\\..\\X0\\ or \\PA\\", "caught (quick, seeds 1,2): syntax / read-error / population keys", "", "caught"),
 'C01-2': ("STEPaggregate::ReadValue no longer marks an empty aggregate as set", "empty aggregate () of a simple element type", "caught: value|<AGGR OF x>|kind agg->null", "", "caught"),
 'C03-1': ("SDAI_Enum::ReadEnum compares with strncmp(token, item, strlen(token))", "undeclared item that is a proper prefix of a declared one (.BE. for bee)", "MISSED (mutants used only NOSUCHITEM)", "C03 now injects prefix / suffix / extended / doubled-letter / other-enumeration items", "caught: accepted|undeclared enumeration item: proper prefix of a declared item|enum|reported clean"),
 'C03-2': ("ReadData1 skips CreateInstance when the stream is exhausted", "the LAST instance of the DATA section lacks its ;", "MISSED (hidden behind the open finding 'missing ; accepted', which did not distinguish positions)", "position (last of the section) is part of the key; the last instance is always mutated", "caught: accepted|missing ; (unterminated instance)|simple instance, last of the section|reported clean"),
 'C14-1': ("SetFileIdIncrement uses InstanceCount() instead of MaxFileId()", "earlier population with sparse/high ids", "caught: offset|ids:...|shifted ids collide with / lie below earlier ids", "", "caught"),
 'C14-2': ("generated <Select>::STEPread_content drops addFileId for aggregate members", "typed select value whose member is an aggregate of entity references, in an appended file", "MISSED on seed 1 (caught on seed 2 by an unspecific key)", "gen_schema: select member that is a SET OF entity; C14 reference-position matrix (deterministic); all differing attributes reported", "caught: appended file|select|reference not shifted by the file offset (+ LIST OF select, select in complex part)"),
 'C16-1': ("ReadInstance demotes a complete node to incomplete on working-session load", "instance saved as complete whose required attribute is unset", "caught: state|...|editing state not restored (C->I)", "", "caught"),
 'C16-2': ("ReadData1/2 skip deleted records before the comment after the state letter is consumed", "deleted instance carrying a comment that contains ;", "MISSED (inputs had no instance comments)", "C16 inputs now carry comments (stored with the instance and written between state letter and id); oracle strips D records with the reference tokenizer", "caught: population|...|deleted instances present after reload"),
}
extra = os.path.join(V, 'seeded', 'results_extra.json')
if os.path.exists(extra):
    RES.update({k: tuple(v) for k, v in json.load(open(extra)).items()})
lines = ["# Seeded changes: which check catches what", "",
 "Each directory holds patch.diff, the author's demonstration and meta.json (author's account + my evaluation). Evaluated with",
 "`tools/try_seeded.py seeded/<id>/patch.diff <Cxx> --seeds 1,2` against /repo HEAD at the time (scratch worktree, nothing committed to /repo).", "",
 "| id | change | needs to manifest | first result | strengthening | final |", "|---|---|---|---|---|---|"]
for k, (chg, needs, first, strength, final) in sorted(RES.items()):
    lines.append("| %s | %s | %s | %s | %s | %s |" % (k, chg, needs.replace('|', '/'), first.replace('|', '/'), (strength or '-').replace('|', '/'), final.replace('|', '/')))
    mp = os.path.join(V, 'seeded', k, 'meta.json')
    if not os.path.isdir(os.path.dirname(mp)):
        continue
    try:
        m = json.load(open(mp))
    except Exception:
        m = {}
    m['evaluation'] = dict(check=k.split('-')[0], first_result=first, strengthening=strength, final_result=final,
                           ran='tools/try_seeded.py seeded/%s/patch.diff %s --seeds 1,2' % (k, k.split('-')[0]))
    json.dump(m, open(mp, 'w'), indent=1)
open(os.path.join(V, 'seeded', 'RESULTS.md'), 'w').write('\n'.join(lines) + '\n')
print(len(RES), 'seeded changes in table')
