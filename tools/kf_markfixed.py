#!/usr/bin/env python3
"""tools/kf_markfixed.py Cxx [seeds...] : run the check for the seeds, and turn every OPEN entry of known_findings.d/Cxx.json
that is no longer observed into status "fixed" (a fixed entry suppresses nothing).  Used after fix: commits were applied."""
import json, os, subprocess, sys
V = os.path.dirname(os.path.dirname(os.path.abspath(__file__)))
pid = sys.argv[1]
seeds = sys.argv[2:] or ['1', '2', '3']
hit = set()
for s in seeds:
    r = subprocess.run(['./check', pid], cwd=V, env=dict(os.environ, VERIF_SEED=s), capture_output=True, text=True)
    if r.returncode != 0:
        print('check exits', r.returncode, 'for seed', s, '- not touching anything'); print(r.stdout[-2000:]); sys.exit(1)
    ev = json.load(open(os.path.join(V, 'evidence', pid + '.json')))
    hit |= set(ev['coverage']['known_findings_hit'])
p = os.path.join(V, 'known_findings.d', pid + '.json')
d = json.load(open(p))
fixes = subprocess.run(['git', '-C', '/repo', 'log', '--format=%h %s', '--grep=^fix:'], capture_output=True, text=True).stdout.splitlines()
n = 0
for f in d['findings']:
    if f.get('status') == 'open' and f['key'] not in hit:
        f['status'] = 'fixed'
        f['commit'] = f.get('commit') or 'one of the fix: commits in /repo (git log --grep=^fix:)'
        f['line'] = 'fixed: property=%s %s %s' % (pid, f['commit'], f['key'])
        n += 1
json.dump(d, open(p, 'w'), indent=1)
print(pid, 'marked fixed:', n, 'still open:', sum(1 for f in d['findings'] if f.get('status') == 'open'))
