#!/usr/bin/env python3
"""Regenerates /verif/MANIFEST.json from the table below (keeps it valid at all times)."""
import json, os, subprocess
V = os.path.dirname(os.path.dirname(os.path.abspath(__file__)))
TRUST = ("gcc 12 + ASan/UBSan runtimes; CPython 3.11; generators and reference oracles under /verif/vf (ref_*.py, gen_*.py); "
         "harness programs under /verif/harness; the guarded hook code in /repo; open findings in known_findings.json are masked out of the "
         "randomized workload and exercised by deterministic probes (vf/probes.py)")
CHECKS = {
 'C03': dict(tech='fault injection into conforming populations + severity/exit-status and per-instance dump monitor (reference model = generated population) under ASan+UBSan',
             level='fault_enumeration',
             text='Fault enumeration: every listed violation class is injected singly (a) at every instance of a fixed matrix schema covering all attribute kinds '
                  '(deterministic, every run) and (b) at sampled positions of seeded generated populations; the real reader must end worse than USERMSG with '
                  'non-zero p21read exit, and all other baseline-clean instances must be loaded with their file values (confinement).',
             ref='DESIGN.md section 2 C03'),
 'C09': dict(tech='exhaustive token enumeration driven through STEPattribute::STEPread/STEPwrite in-process (ASan+UBSan) vs. an independent Part 21 literal lexer',
             text='Exploration, exhaustive for the bounded part: all token strings up to length 5 (quick) / 7 (thorough) over each kind\'s alphabet in 4 delimiter '
                  'contexts + boundary numerals are read by the real attribute reader; severity, value, is_null and stream position are compared with a reference lexer; '
                  'writer probes over integer/real grids must be grammar-conforming and read back.',
             ref='DESIGN.md section 2 C09'),
 'C18': dict(tech='reference-model monitor: generated schemas through the real exp2python, py_compile + import in a subprocess, class/type introspection vs. the schema model',
             text='Exploration: seeded schemas (inheritance shapes x Python keyword/builtin identifiers in every role) are compiled by exp2python; the module must compile, '
                  'import against the bundled runtime, and its classes (bases, constructor parameters) and type definitions must equal the model.',
             ref='DESIGN.md section 2 C18'),
 'C19': dict(tech='reference-model monitor over the real Python aggregate classes: exhaustive breadth-first walk of reachable object states + seeded random operation sequences',
             text='Exploration, exhaustive for the bounded part: every mutation sequence up to length 4 (quick) / 6 (thorough) on 362 container configurations is replayed on the '
                  'real ARRAY/LIST/BAG/SET classes in a subprocess and co-simulated with a list/multiset/set model that enforces only what the property states.',
             ref='DESIGN.md section 2 C19'),
 'C15': dict(tech='fault injection ($ / empty value) into conforming populations, read in strict and lenient mode by the real reader; oracle = documented matrix',
             level='fault_enumeration',
             text='Fault enumeration: every non-derived attribute position of a fixed matrix population (all attribute kinds x required/OPTIONAL x own/complex part) and of '
                  'seeded generated populations is replaced by `$` or left empty; exit status, severity and the written value in both modes are compared with the documented matrix.',
             ref='DESIGN.md section 2 C15'),
 'C14': dict(tech='reference-model monitor: read + append of generated populations through the real STEPfile under ASan+UBSan; per-instance dump compared with the model shifted by one offset',
             text='Exploration: seeded populations renumbered into id-range modes (from 1, sparse, near multiples of 1000, high) are read and appended (2-3 files); all instances must be '
                  'present, the first file unchanged, each appended file shifted by one common offset above all earlier ids with every reference shifted alike.',
             ref='DESIGN.md section 2 C14'),
 'C16': dict(tech='reference-model monitor over save/load cycles of working-session files through the real STEPfile (ASan+UBSan): per-instance dump + state letters + byte comparison of successive saves',
             text='Exploration: seeded populations (some partially filled) x state assignments (complete/incomplete/new/deleted) are saved as working-session files, reloaded in a fresh '
                  'session and saved again twice; population, states and byte stability are compared with the exchange-file baseline.',
             ref='DESIGN.md section 2 C16'),
 'C05': dict(tech='compiler sanitizers (gcc ASan+UBSan, fatal, one process per input) + hook step counters as logical clock over grammar-aware mutants, pathological shapes and exhaustive short parameter strings',
             text='Exploration: conforming exchange and working-session files, token/byte mutants, stretching to 10^5, truncation, fixed pathological shapes and all parameter strings '
                  'up to length 2 (quick) / 3 (thorough) per attribute kind are read and written by the sanitizer-built library; any report, signal, step-budget overrun or super-linear CPU growth (size N vs 4N per pathological family) is a violation.',
             ref='DESIGN.md section 2 C05', note='red-zone sanitizers miss intra-object and non-adjacent overflows; termination is decided on instrumented loops only'),
 'C13': dict(tech='linear-history reference-model monitor (ordered list + dict) over operation scripts executed by a harness on the real InstMgr, plus in-code invariant hook H2 and ASan+UBSan',
             text='Exploration, exhaustive for the bounded part: all operation sequences of length <= 4 (quick) / 5 (thorough) over a 12-symbol alphabet, owning and non-owning managers, '
                  'plus seeded random sequences of length 50-400; the public view after every operation is compared with the model and the invariant walker runs inside every mutator.',
             ref='DESIGN.md section 2 C13'),
 'C08': dict(tech='exhaustive subset enumeration per generated inheritance graph through the real reader (ASan+UBSan) vs. a reference legality predicate transcribed from the property',
             text='Exploration, exhaustive per graph: for each generated graph (<= 8 entities, every nesting of ONEOF/AND/ANDOR, ABSTRACT, implicit subtypes, two supertypes) every non-empty '
                  'subset of entity names is written as a complex instance in canonical and shuffled part orders between sentinel instances; created(#k) must equal legal(G,T), sentinels '
                  'must survive and the verdict must not depend on part order.',
             ref='DESIGN.md section 2 C08'),
 'C10': dict(tech='differential monitor: the real lazy loader vs. the real eager reader vs. the generated ground truth (index, forward/reverse tables, dependency closure, per-instance serialisation) under ASan+UBSan',
             text='Exploration: seeded conforming populations (complex instances, strings containing # ( ; , forward references, sparse ids) are indexed and loaded by lazyInstMgr in forward, '
                  'reverse and shuffled double orders; ids, keywords, fwd/rev tables, transitive dependencies and every loaded instance are compared with the eager reader and the model.',
             ref='DESIGN.md section 2 C10', note='open findings restrict the randomized space to acyclic populations, schemas without INVERSE, and comment-free single-line text'),
 'C04': dict(tech='classified fault injection into generated EXPRESS + cross-tool verdict monitor (exit status, diagnostics, artefacts) over check-express, exppp, exp2cxx, exp2python',
             level='fault_enumeration',
             text='Fault enumeration: valid generated single/multi-schema files and 33 classes of single-fault mutants (invalid by construction) are run through the four real tools; '
                  'valid input must be accepted by all, faulted input rejected by all with an ERROR and no success artefact, and exit status must be non-zero exactly when an ERROR was printed.',
             ref='DESIGN.md section 2 C04'),
 'C12': dict(tech='differential monitor: output trees (path -> SHA-256) of the real generators under a matrix of perturbations (ASLR on/off, malloc-perturbing LD_PRELOAD shim, cwd, path spelling, environment, locale, earlier runs)',
             text='Exploration: exp2cxx, exp2python, exppp and schema_scanner are run on shipped and generated schemas under 13 perturbed configurations each; every output tree must be byte-identical to the base run.',
             ref='DESIGN.md section 2 C12', note='determinism is decided with respect to the factors varied (clock and host name are not varied)'),
 'C17': dict(tech='differential monitor: file lists predicted by the real schema_scanner vs. files actually written by the real exp2cxx',
             text='Exploration: for shipped, unit and generated (single- and multi-schema) files the CMakeLists.txt written by schema_scanner is parsed and compared with the recursive listing of exp2cxx output.',
             ref='DESIGN.md section 2 C17'),
 'C20': dict(tech='classified fault injection into generated EXPRESS + diagnostic-text monitor on check-express (attribution, quoted argument = injected lexeme, line numbers, -w/-i switch invariance)',
             level='fault_enumeration',
             text='Fault enumeration: 32 argument-carrying fault classes are injected into generated schemas; each diagnostic must be attributed to the input file, quote the injected lexeme and '
                  'carry its line; every -w/-i combination must leave exit status and ERROR lines unchanged and toggle only the named warning class.',
             ref='DESIGN.md section 2 C20'),
 'C07': dict(tech='reference-model monitor: exppp output re-checked by check-express, compared declaration by declaration (token sequences + expression trees) with the source by an independent EXPRESS reader, and re-printed twice for stability',
             text='Exploration: model-first generated schemas covering 210 construct kinds (one construct under test per declaration) and the shipped schemas are pretty-printed at 5 line widths x 3 flag '
                  'settings; the output must be accepted, equivalent to its source up to redundant parentheses and split string literals, and stable under re-printing.',
             ref='DESIGN.md section 2 C07'),
 'C02': dict(tech='reference-model monitor: run-time dictionary dump (regdump harness over Registry iterators), fresh-instance attribute lists and generated accessor round trips vs. the schema model, under ASan+UBSan; compile status observed per schema',
             text='Exploration: seeded generated schemas (+ naming/inheritance/type-zoo extras) are compiled by exp2cxx and g++; entity and type sets, per-entity ordered lists, flags, domain types, '
                  'enumeration items, select members, aggregate bounds, Part 21 attribute order of fresh instances and mutator/accessor round trips must equal the model.',
             ref='DESIGN.md section 2 C02'),
 'C11': dict(tech='reference-model monitor: inverse-attribute slots read after lazyInstMgr::loadInstance (by the declared kind, as generated accessors do) vs. the referrer sets computed from the generated population; UBSan vptr catches slot type confusion',
             text='Exploration: generated schemas around INVERSE (own/inherited over 1-2 levels, several inverses per target, aggregate and single inverted attributes, referrer subtypes) x populations x '
                  'load orders; every inverse attribute of every loaded instance must hold exactly the referrers, each once.',
             ref='DESIGN.md section 2 C11'),
 'C06': dict(tech='compiler sanitizers (gcc ASan+UBSan, fatal, one process per input, ASLR off) + hook step counters and CPU limit over shipped schemas, generated schemas, token/byte mutants, an identifier-replacement grid and fixed pathological shapes, through all four EXPRESS tools',
             text='Exploration: all 51 shipped .exp files, generated valid schemas, ~70 mutants per base schema, 1441 identifier-replacement mutants and 321 pathological shapes/option values are run through '
                  'check-express, exppp, exp2cxx and exp2python built with ASan+UBSan; any report, signal, out-of-range status, missing diagnostic or step/CPU budget overrun is a violation.',
             ref='DESIGN.md section 2 C06', note='red-zone sanitizers miss intra-object overflows; loops without a hook site are bounded only by the CPU limit'),
 'C01': dict(tech='reference-model monitor over recorded executions (independent Part 21 parser vs. files written by the real library) under ASan+UBSan',
             text='Exploration: seeded generated schemas x conforming populations x text variants are read and written by the real p21read/STEPfile '
                  'built with ASan+UBSan from the current tree; an independent Part 21 parser compares the written population value by value with the '
                  'generated ground truth and a second read-write must be byte-identical. Held-on-K-executions, not a proof.',
             ref='DESIGN.md section 2 C01'),
}
NOT_YET = {}
def main():
    props = [json.loads(l) for l in open(os.path.join(V, 'properties.jsonl'))]
    hooks = subprocess.run(['git', '-C', '/repo', 'log', '--format=%H %s'], capture_output=True, text=True).stdout.splitlines()
    hook_commits = [l.split()[0] for l in hooks if 'verification hook' in l.lower() or 'STEPCODE_VERIF' in l]
    checks = []
    na = []
    for p in props:
        pid = p['id']
        c = CHECKS.get(pid)
        if not c:
            na.append(dict(property_id=pid, reason=NOT_YET.get(pid, 'check not built yet in this round (runtime monitoring applies; see DESIGN.md section 2 for the planned monitor) - not claimed')))
            continue
        checks.append(dict(property_id=pid, quick_cmd='./check %s --tier quick' % pid, thorough_cmd='./check %s --tier thorough' % pid,
                           evidence_file='/verif/evidence/%s.json' % pid, replay_cmd_template='./check %s --replay {path}' % pid,
                           engine='vf', level_claimed=dict(category=c.get('level', 'exploration'), text=c['text'], design_ref=c['ref']),
                           level_note=TRUST + ('; ' + c['note'] if c.get('note') else ''), technique=c['tech']))
    m = dict(version=1, setup_cmd='python3 -m vf.build san plain',
             hooks=dict(guard='STEPCODE_VERIF', enable='every check builds /repo out of tree under $VERIF_WORK with -DSTEPCODE_VERIF in CMAKE_C/CXX_FLAGS (vf/build.py)',
                        baseline_off_cmd='cmake --build /repo/_build && ctest --test-dir /repo/_build -j8 --timeout 900',
                        source_commits=hook_commits, add_only=True),
             engines=[dict(name='vf', path='/verif/check', serves_properties=sorted(CHECKS), kind_free_text='Python drivers + C++ harnesses: workload generators, sanitizer runner, reference-model oracles, hook event readers')],
             checks=checks, not_applicable=na,
             notes='Runtime monitoring and sanitizers only. Exit 0 held / 1 VIOLATION / 2 INCONCLUSIVE. known_findings.json and known_findings.d/Cxx.json list open and fixed findings (fixed entries name the repairing commit and suppress nothing).')
    json.dump(m, open(os.path.join(V, 'MANIFEST.json'), 'w'), indent=1)
    try:
        import jsonschema
        jsonschema.validate(m, json.load(open('/root/.vp/MANIFEST.schema.json')))
        print('MANIFEST valid;', len(checks), 'checks,', len(na), 'not claimed')
    except ImportError:
        print('MANIFEST written (jsonschema not available);', len(checks), 'checks')
if __name__ == '__main__':
    main()
