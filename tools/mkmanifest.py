#!/usr/bin/env python3
"""Regenerates /verif/MANIFEST.json from the table below (keeps it valid at all times)."""
import json, os, subprocess
V = os.path.dirname(os.path.dirname(os.path.abspath(__file__)))
TRUST = ("gcc 12 + ASan/UBSan runtimes; CPython 3.11; generators and reference oracles under /verif/vf (ref_*.py, gen_*.py); "
         "harness programs under /verif/harness; the guarded hook code in /repo; open findings in known_findings.json are masked out of the "
         "randomized workload and exercised by deterministic probes (vf/probes.py)")
CHECKS = {
 'C01': dict(tech='reference-model monitor over recorded executions (independent Part 21 parser vs. files written by the real library) under ASan+UBSan',
             text='Exploration: seeded generated schemas x conforming populations x text variants are read and written by the real p21read/STEPfile '
                  'built with ASan+UBSan from the current tree; an independent Part 21 parser compares the written population value by value with the '
                  'generated ground truth and a second read-write must be byte-identical. Held-on-K-executions, not a proof.',
             ref='DESIGN.md section 2 C01'),
}
NOT_YET = {}
def main():
    props = [json.loads(l) for l in open(os.path.join(V, 'properties.jsonl'))]
    hooks = subprocess.run(['git', '-C', '/repo', 'log', '--format=%H %s'], capture_output=True, text=True).stdout.splitlines()
    hook_commits = [l.split()[0] for l in hooks if 'verification hook' in l.lower() or 'STEPCODE_VERIF' in l]
    checks = []
    na = []
    for p in props:
        pid = p['id']
        c = CHECKS.get(pid)
        if not c:
            na.append(dict(property_id=pid, reason=NOT_YET.get(pid, 'check not built yet in this round (runtime monitoring applies; see DESIGN.md section 2 for the planned monitor) - not claimed')))
            continue
        checks.append(dict(property_id=pid, quick_cmd='./check %s --tier quick' % pid, thorough_cmd='./check %s --tier thorough' % pid,
                           evidence_file='/verif/evidence/%s.json' % pid, replay_cmd_template='./check %s --replay {path}' % pid,
                           engine='vf', level_claimed=dict(category=c.get('level', 'exploration'), text=c['text'], design_ref=c['ref']),
                           level_note=TRUST + ('; ' + c['note'] if c.get('note') else ''), technique=c['tech']))
    m = dict(version=1, setup_cmd='python3 -m vf.build san plain',
             hooks=dict(guard='STEPCODE_VERIF', enable='every check builds /repo out of tree under $VERIF_WORK with -DSTEPCODE_VERIF in CMAKE_C/CXX_FLAGS (vf/build.py)',
                        baseline_off_cmd='cmake --build /repo/_build && ctest --test-dir /repo/_build -j8 --timeout 900',
                        source_commits=hook_commits, add_only=True),
             engines=[dict(name='vf', path='/verif/check', serves_properties=sorted(CHECKS), kind_free_text='Python drivers + C++ harnesses: workload generators, sanitizer runner, reference-model oracles, hook event readers')],
             checks=checks, not_applicable=na,
             notes='Runtime monitoring and sanitizers only. Exit 0 held / 1 VIOLATION / 2 INCONCLUSIVE. known_findings.json lists open and fixed findings.')
    json.dump(m, open(os.path.join(V, 'MANIFEST.json'), 'w'), indent=1)
    try:
        import jsonschema
        jsonschema.validate(m, json.load(open('/root/.vp/MANIFEST.schema.json')))
        print('MANIFEST valid;', len(checks), 'checks,', len(na), 'not claimed')
    except ImportError:
        print('MANIFEST written (jsonschema not available);', len(checks), 'checks')
if __name__ == '__main__':
    main()
