#!/usr/bin/env python3
"""tools/kf_attribute_commits.py [--dry-run] [--only Cxx[,Cyy...]] [--skip Cxx[,Cyy...]]

Replaces the placeholder commit that tools/kf_markfixed.py writes into fixed entries of known_findings.json and
known_findings.d/Cxx.json ("one of the fix: commits in /repo (git log --grep=^fix:)") by the fix: commit of /repo that
repaired the entry, and rewrites the entry's line as `fixed: property=<id> <hash> <key>`.

The attribution is the explicit table RULES below: (property, substring of the key) -> short hash, first match wins.  Where
several commits together repaired one entry the rule names the LAST of them and lists the others, which go into a new field
"also".  NO_COMMIT lists the entries for which no repairing commit exists (they stay as they are and are reported).
An entry that matches neither table is reported as unattributed and left alone.

Only the fields commit / line (and also) of placeholder entries change; entries, their order, every other field and the layout
(json.dump(d, f, indent=1), no final newline) stay.  Every file is read immediately before it is rewritten; C17 and C20 come
last.  The run is idempotent (a second run finds no placeholder).

Checks made on every run: every hash of the tables exists in /repo and its subject starts with "fix:"; PATCHES (proposed
fix -> commit) agrees with the subject recorded in proposed_fixes/<name>.txt; an entry whose text names a proposed fix gets
the commit of one of the patches it names (or lists it under also); per file the number of entries and the multiset of
(property, status, key) are unchanged.
"""
import collections
import json
import os
import re
import subprocess
import sys

V = os.path.dirname(os.path.dirname(os.path.abspath(__file__)))
REPO = os.environ.get('VERIF_REPO', '/repo')
PLACEHOLDER = 'one of the fix: commits in /repo (git log --grep=^fix:)'

# proposed_fixes/<name>.patch -> the fix: commit of /repo that applied it (first line of <name>.txt == commit subject)
PATCHES = {
    'C02-attribute-list-duplicate': '74a1ab57',
    'C02-defined-nested-aggregate': '210c5ec2',
    'C02-select-base-type': 'd86abc72',
    'C04-exp2python-renamed-import-null-file': 'c106156a',
    'C04-subtype-cycle-stops-before-expression-pass': '3a6737f5',
    'C06-exp2python-renamed-interface-item': '8611bb35',
    'C06-exp2python-repeat-without-control': 'a4e906ae',
    'C06-exp2python-type-sweep-terminates': '064ee964',
    'C06-exppp-fragment-buffer': '7bf8f09d',
    'C06-group-reference-diagnostic-argument': 'b61664d5',
    'C06-include-directive': 'e71e0448',
    'C06-nvl-argument-count': 'fac2d32c',
    'C06-parser-scope-depth': 'a51c77f6',
    'C06-scanner-token-cut-by-end-of-file': '55aa69fe',
    'C06-tail-remark-buffer': 'e0c09e31',
    'C06-unique-rule-stale-qualified-attr': '9b6e63fc',
    'C07-alias-statement': '877b4d29',
    'C07-binary-literal': '5c6ec059',
    'C07-case-labels': 'e3adb796',
    'C07-const-e-name': 'fa25f54e',
    'C07-output-file-keeps-all-schemas': '1543aae9',
    'C07-procedure-without-parameters': '895cf19a',
    'C07-real-literal-keeps-decimal-point': '56811c55',
    'C07-right-operand-parentheses': '0162e416',
    'C07-string-apostrophes': '2f945346',
    'C07-unlabelled-where-rule': '0314c857',
    'C09-dollar-followed-by-junk': '25f318f1',
    'C09-empty-binary-silently-unset': '500c71de',
    'C09-logical-unset-item-accepted': '71d476b7',
    'C09-numeric-readers-silent-failure': 'ecf68984',
    'C09-readreal-token-buffer-overflow': 'eda8ab91',
    'C12-aggregate-bound-expression': 'ff865a0e',
    'C12-scanner-input-path': 'e9fb8a65',
    'C13-deleteentries-dangling': '74e65ae8',
    'C13-reappend-id0': 'c0a24df6',
    'C17-scanner-multischema-dir': '78c305b9',
    'C18-attr-name-overread': '32c35feb',
    'C18-enum-item-order': '9ebb64ec',
    'C18-import-package-name': 'b307a533',
    'C18-number-binary-type-name': 'b8d8382d',
    'C18-python-keyword-list': '9a5aae71',
    'C18-strdup-prototype': 'c920bc70',
    'C19-bag-set-capacity': 'a9a9a0c0',
    'C19-list-unbounded': '32eb5f2d',
    'C19-unique-same-index': 'b032d5a3',
    'C20-line-numbers-one-based': '0fa93868',
    'C20-report-with-line-va-list': '7a8924ed',
    'C20-warning-switches': 'd0e9e3c7',
}

# (property, substring of the key, commit, other commits that were needed as well).  First match wins.
RULES = [
    # ---- C02: generated C++ dictionary / instances
    ('C02', 'defined(LIST OF aggregate)', '210c5ec2', ()),
    ('C02', 'defined(LIST OF LIST OF defined(STRING))', '210c5ec2', ()),      # constructor crash, consequence of the missing descriptor
    ('C02', 'accessor round trip of select|ubsan:invalid value load', 'd86abc72', ()),
    ('C02', 'attribute re-declared as derived|an attribute appears twice', '74a1ab57', ()),
    # ---- C04: verdicts of the four EXPRESS tools
    ('C04', 'subtype cycle x ', '3a6737f5', ()),
    # exp2python died on every entity attribute (strdup without prototype).  Checked on a 'plain' build of c920bc70 (the build
    # flavour C04 uses): the generator runs to completion without the later over-read repair 32c35feb.
    ('C04', 'non-ASCII byte between tokens x exp2python|signal 6', 'c920bc70', ()),
    ('C04', 'unrecognised character x exp2python|signal 6', 'c920bc70', ()),
    ('C04', 'valid single schema x exp2python|signal 6', 'c920bc70', ()),
    # multi-schema files needed the strdup repair AND the NULL FILE* repair of renamed imports
    ('C04', 'valid multi-schema file x exp2python|signal 6', 'c106156a', ('c920bc70',)),
    # ---- C06: memory safety / termination of the EXPRESS tools
    ('C06', '18 or more nested ', 'a51c77f6', ()),
    ('C06', '6 or more INCLUDE directives x naming the input file itself', 'e71e0448', ()),
    # the crash is repaired by e71e0448; the text of the message it then prints also needs the earlier 7a8924ed (named in the entry)
    ('C06', 'INCLUDE directive x naming a missing file', 'e71e0448', ('7a8924ed',)),
    ('C06', 'NVL with one argument x ', 'fac2d32c', ()),
    ('C06', 'NVL without arguments x ', 'fac2d32c', ()),
    ('C06', 'REPEAT without control x function body|exp2python', 'a4e906ae', ()),
    ('C06', 'UNIQUE rule on SELF\\super.attr followed by a plain attribute rule', '9b6e63fc', ()),
    ('C06', 'binary literal of 9990 chars or more x constant|exppp', '7bf8f09d', ()),
    ('C06', 'encoded string literal of 9990 chars or more x constant|exppp', '7bf8f09d', ()),
    ('C06', 'string literal of 10000 quote pairs x constant|exppp', '7bf8f09d', ()),
    ('C06', 'string literal of 9990 chars or more x ', '7bf8f09d', ()),
    ('C06', 'group qualifier on a non-entity expression x ', 'b61664d5', ()),
    # The 10^5-character identifier overflowed exppp's char buf[10000] in wrap()/raw() (exp2cxx links the same code) and the
    # sanitizer report itself died -> SIGABRT.  Checked on san builds of 064ee964 (= 7bf8f09d^) and 7bf8f09d with the shapes
    # of vf/c06_shapes.py: all eight keys give signal 6 before and no signal 6 after (exppp: clean exit; exp2cxx function
    # name: clean exit; exp2cxx attribute name: the still open ubsan key at class_strings.c:194).
    ('C06', 'identifier of 8191 chars or more x attribute name|exp2cxx|signal 6', '7bf8f09d', ()),
    ('C06', 'identifier of 8191 chars or more x function name|exp2cxx|signal 6', '7bf8f09d', ()),
    ('C06', 'identifier of 8191 chars or more x defined type name|exppp|signal 6', '7bf8f09d', ()),
    ('C06', 'identifier of 8191 chars or more x entity name|exppp|signal 6', '7bf8f09d', ()),
    ('C06', 'identifier of 8191 chars or more x enumeration item|exppp|signal 6', '7bf8f09d', ()),
    ('C06', 'identifier of 8191 chars or more x function name|exppp|signal 6', '7bf8f09d', ()),
    ('C06', 'identifier of 8191 chars or more x select type name|exppp|signal 6', '7bf8f09d', ()),
    ('C06', 'identifier of 8191 chars or more x where label|exppp|signal 6', '7bf8f09d', ()),
    ('C06', 'tail remark of 255 chars or more x after semicolon', 'e0c09e31', ()),
    ('C06', 'token cut by end of file x ', '55aa69fe', ()),
    ('C06', "two schemas using each other x USE FROM + defined type renaming the other schema's type|exp2python|hang", '064ee964', ()),
    # ---- C07: exppp round trip
    ('C07', 'entity:supertype-right-nested|', '0162e416', ()),
    ('C07', 'expr:right-nested:', '0162e416', ()),
    ('C07', 'shipped:operator grouping|', '0162e416', ()),
    ('C07', 'entity:where-mixed|', '0314c857', ()),
    ('C07', 'entity:where-unlabelled|', '0314c857', ()),
    ('C07', 'rule:where-unlabelled|', '0314c857', ()),
    ('C07', 'type:where-mixed|', '0314c857', ()),
    ('C07', 'type:where-unlabelled|', '0314c857', ()),
    ('C07', 'shipped:defined_type_where_rule|', '0314c857', ()),
    ('C07', 'lit:bin|', '5c6ec059', ()),
    ('C07', 'lit:const-e|', 'fa25f54e', ()),
    ('C07', 'lit:real-17-digits|', '56811c55', ()),
    ('C07', 'lit:real-exp-integral|', '56811c55', ()),
    ('C07', 'lit:real-integral|', '56811c55', ()),
    # partial: 1.0 / 2.0 are repaired by 56811c55, 0.0 is not (the fits / wrapped keys of the same finding are still open)
    ('C07', 'shipped:real literal|literal split|token changed', '56811c55', ()),
    ('C07', 'lit:str-apos|', '2f945346', ()),
    ('C07', 'lit:str-long-apos|', '2f945346', ()),
    ('C07', 'proc:no-params|', '895cf19a', ()),
    ('C07', 'stmt:pcall-noargs|', '895cf19a', ()),
    ('C07', 'schema:two-schemas-into-one-output-file|', '1543aae9', ()),
    ('C07', 'shipped:case|', 'e3adb796', ()),
    ('C07', 'stmt:case-multi-label|', 'e3adb796', ()),
    ('C07', 'stmt:case-negative-label|', 'e3adb796', ()),
    ('C07', 'stmt:alias-qualified|', '877b4d29', ()),
    ('C07', 'stmt:alias|', '877b4d29', ()),
    # ---- C09: Part 21 value readers
    ('C09', 'crash|REAL|real (64 or more characters)', 'eda8ab91', ()),
    ('C09', 'any|characters after $|', '25f318f1', ()),
    ('C09', 'BINARY|empty binary|', '500c71de', ()),
    ('C09', 'LOGICAL|item named UNSET|', '71d476b7', ()),
    ('C09', 'INTEGER|sign without digits|', 'ecf68984', ()),
    ('C09', 'INTEGER|overflow beyond 64 bit|', 'ecf68984', ()),
    ('C09', 'REAL|sign without digits|', 'ecf68984', ()),
    ('C09', 'REAL|decimal point without digits|', 'ecf68984', ()),
    ('C09', 'REAL|exponent marker without digits|', 'ecf68984', ()),
    ('C09', 'REAL|exponent without mantissa digits|', 'ecf68984', ()),
    ('C09', 'REAL|overflow beyond the double range|', 'ecf68984', ()),
    ('C09', 'REAL|non-conforming number spelling beyond the double range|', 'ecf68984', ()),
    ('C09', 'NUMBER|sign without digits|', 'ecf68984', ()),
    ('C09', 'NUMBER|decimal point without digits|', 'ecf68984', ()),
    ('C09', 'NUMBER|exponent marker without digits|', 'ecf68984', ()),
    ('C09', 'NUMBER|overflow beyond the double range|', 'ecf68984', ()),
    ('C09', 'NUMBER|non-conforming number spelling beyond the double range|', 'ecf68984', ()),
    # ---- C12: reproducible output
    ('C12', 'exp2cxx|non-literal aggregate bound|repeated run|', 'ff865a0e', ()),
    ('C12', 'schema_scanner|any schema|input path spelling|', 'e9fb8a65', ()),
    ('C12', 'schema_scanner|input below a directory named data|input path spelling|', 'e9fb8a65', ()),
    # ---- C13: instance manager
    ('C13', 'crash: invariant hook after Append: node not found under its file id', 'c0a24df6', ()),
    ('C13', 'seq|own=any: An Dx Gi|crash: asan:heap-use-after-free', '74e65ae8', ()),
    # ---- C17: schema_scanner
    ('C17', 'scanner|multi-schema file whose schemas get the same short name|', '78c305b9', ()),
    # ---- C18: exp2python generated modules
    # the entry names both repairs (strdup prototype c920bc70, then the over-read of the same copy loop 32c35feb)
    ('C18', 'crash|entity attribute|generator killed by a signal', '32c35feb', ('c920bc70',)),
    ('C18', 'import|import of the runtime package|ModuleNotFoundError', 'b307a533', ()),
    ('C18', 'compile|other Python keyword as entity in class statement|SyntaxError', '9a5aae71', ()),
    ('C18', 'typedef|enumeration|items in another order than declared', '9ebb64ec', ()),
    ('C18', 'typedef|defined aggregate of NUMBER|element type differs', 'b8d8382d', ()),
    ('C18', 'typedef|defined aggregate of BINARY|element type differs', 'b8d8382d', ()),
    # ---- C19: exp2python runtime aggregates
    ('C19', 'rewrite same value at same index (UNIQUE)|expected accept, refused with AssertionError', 'b032d5a3', ()),
    ('C19', 'rewrite same value at same index (UNIQUE)|expected accept, refused with TypeError', '32eb5f2d', ()),
    ('C19', 'BAG b1=0 bounded|add new element to full container|', 'a9a9a0c0', ()),
    ('C19', 'BAG b1>=2 bounded|add new element below upper bound|', 'a9a9a0c0', ()),
    ('C19', 'SET b1=0 bounded|add new element to full container|', 'a9a9a0c0', ()),
    ('C19', 'SET b1>=2 bounded|add new element below upper bound|', 'a9a9a0c0', ()),
    ('C19', 'SET b1=1 bounded|add wrong type|', 'a9a9a0c0', ()),
    ('C19', 'SET b1>=2 bounded|add wrong type|', 'a9a9a0c0', ()),
    ('C19', 'LIST unbounded, index at or above bound_1|append at next position|', '32eb5f2d', ()),
    ('C19', 'LIST unbounded, index at or above bound_1|overwrite element|', '32eb5f2d', ()),
    ('C19', 'LIST unbounded, index below bound_1|read at index <= 0|', '32eb5f2d', ()),
    ('C19', 'LIST unbounded, index below bound_1|read position never written|', '32eb5f2d', ()),
    # ---- C20: diagnostics
    ('C20', '|argument text wrong: got text not from the input', '7a8924ed', ()),
    ('C20', 'every diagnostic x check-express|line number is the line of the offending lexeme -1', '0fa93868', ()),
    ('C20', 'unterminated string literal PE029 x check-express|line number wrong', '0fa93868', ()),
    ('C20', 'warning switch x check-express|signal 6', 'd0e9e3c7', ()),
]

# (property, substring of the key, why there is no commit).  kf_markfixed.py turned these into "fixed" because the quick runs
# after the C07 repairs did not observe the key any more, but no fix: commit repaired the defect: the entries themselves say
# "not repaired", the sibling keys of the same defect (agg:rep-*, interval, lit:real-zero, lit:str-dots-in-op, unary:+|fits,
# shipped:interval|fits) are still open and hit, and exppp built from a tree with all C07 repairs still prints
# data/ap209 `[1.0, 0.0, 0.0]` as `[1.0 : 0 : 0]`, which it rejects when it reads it back.
NO_COMMIT = [
    ('C07', 'shipped:242_n8324_mim_lf|', 'shared literal 0 marked as repetition count: parser-side, not repaired'),
    ('C07', 'shipped:ap209_N8334_mim_lf|', 'shared literal 0 marked as repetition count: parser-side, not repaired'),
    ('C07', 'shipped:ap210e3_n8232_mim_lf|', 'shared literal 0 marked as repetition count: parser-side, not repaired'),
    ('C07', 'shipped:aggregate repetition|', 'repetition count defect: parser-side, not repaired (agg:rep-* still open)'),
    ('C07', 'shipped:interval|', 'interval rewritten by the parser: not repaired (shipped:interval|fits still open)'),
    ('C07', 'shipped:parentheses|literal split|not idempotent', 'split string literal parenthesised: not repaired (lit:str-dots-in-op still open)'),
    ('C07', 'shipped:second printing not ISO 10303-11 syntax|', 'consequence of the two defects above: not repaired'),
    ('C07', 'unary:+|wrapped|', 'unary + dropped by the parser: not repaired (unary:+|fits still open)'),
]

# patches that were committed in a reworked form (same defect, same first words of the subject, another mechanism)
REWORKED = {'C04-subtype-cycle-stops-before-expression-pass'}

LAST = ('C17', 'C20')       # edited by other processes at times: handled last, re-read immediately before the rewrite


def git(*a):
    return subprocess.run(['git', '-C', REPO] + list(a), capture_output=True, text=True)


def check_tables():
    bad = []
    hashes = set(PATCHES.values()) | set(r[2] for r in RULES) | set(h for r in RULES for h in r[3])
    subj = {}
    for h in sorted(hashes):
        if not re.match(r'^[0-9a-f]{8}$', h) or git('cat-file', '-e', h + '^{commit}').returncode != 0:
            bad.append('no such commit in %s: %s' % (REPO, h))
            continue
        subj[h] = git('log', '-1', '--format=%s', h).stdout.strip()
        if not subj[h].startswith('fix:'):
            bad.append('%s is not a fix: commit (%s)' % (h, subj[h][:60]))
        full = git('log', '-1', '--format=%h', '--abbrev=8', h).stdout.strip()
        if full != h:
            bad.append('%s is printed %s by git log --abbrev=8' % (h, full))
    for name, h in sorted(PATCHES.items()):
        t = os.path.join(V, 'proposed_fixes', name + '.txt')
        try:
            first = open(t).readline().strip()
        except OSError:
            bad.append('missing ' + t)
            continue
        same = first == subj.get(h) or (name in REWORKED and os.path.commonprefix([first, subj.get(h, '')]).count(' ') >= 20)
        if h in subj and not same:
            bad.append('%s.txt does not carry the subject of %s' % (name, h))
    # order: the commit of a rule must be later than everything under also
    for prop, sub, h, also in RULES:
        for a in also:
            if git('merge-base', '--is-ancestor', a, h).returncode != 0:
                bad.append('rule %s %r: %s is not an ancestor of %s' % (prop, sub, a, h))
    return bad, subj


def attribute(e):
    """-> ('rule', hash, also) | ('none', reason) | ('unknown',)"""
    for prop, sub, h, also in RULES:
        if prop == e.get('property') and sub in e['key']:
            return ('rule', h, tuple(also))
    for prop, sub, why in NO_COMMIT:
        if prop == e.get('property') and sub in e['key']:
            return ('none', why)
    return ('unknown',)


def triples(d):
    return collections.Counter((e.get('property'), e.get('status'), e.get('key')) for e in d['findings'])


def process(path, dry, report):
    rel = os.path.relpath(path, V)
    for attempt in range(5):
        raw = open(path).read()
        d = json.loads(raw)
        before = triples(d)
        n_before = len(d['findings'])
        changed = 0
        pending = []
        for e in d['findings']:
            if e.get('status') != 'fixed' or e.get('commit') != PLACEHOLDER:
                continue
            a = attribute(e)
            if a[0] == 'rule':
                _, h, also = a
                named = [PATCHES[n] for n in re.findall(r'(C\d\d-[\w-]+)\.patch', e.get('what', '')) if n in PATCHES]
                if named and h not in named and not (set(named) & set(also)):
                    report['problems'].append('%s: %s: rule gives %s but the entry names %s' % (rel, e['key'], h, named))
                    continue
                pending.append((e, h, also))
            elif a[0] == 'none':
                report['no_commit'].append((rel, e['property'], e['key'], a[1]))
            else:
                report['unknown'].append((rel, e['property'], e['key']))
        for e, h, also in pending:
            e['commit'] = h
            e['line'] = 'fixed: property=%s %s %s' % (e['property'], h, e['key'])
            if also:
                e['also'] = list(also)
            report['done'][e['property']] += 1
            report['by_commit'][h] += 1
            changed += 1
        assert len(d['findings']) == n_before and triples(d) == before, rel
        if not changed or dry:
            return changed
        text = json.dumps(d, indent=1)          # == what json.dump(d, f, indent=1) writes
        if open(path).read() != raw:            # somebody rewrote the file meanwhile: start over from what is there now
            for e, h, also in pending:
                report['done'][e['property']] -= 1
                report['by_commit'][h] -= 1
            report['no_commit'] = [x for x in report['no_commit'] if x[0] != rel]
            report['unknown'] = [x for x in report['unknown'] if x[0] != rel]
            continue
        with open(path, 'w') as f:
            f.write(text)
        return changed
    report['problems'].append('%s: kept changing under me, not written' % rel)
    return 0


def main():
    args = sys.argv[1:]
    dry = '--dry-run' in args
    only = skip = None
    for i, a in enumerate(args):
        if a == '--only':
            only = set(args[i + 1].split(','))
        if a == '--skip':
            skip = set(args[i + 1].split(','))
    bad, subj = check_tables()
    if bad:
        print('\n'.join(bad))
        return 1
    dd = os.path.join(V, 'known_findings.d')
    frag = sorted(f for f in os.listdir(dd) if f.endswith('.json'))
    paths = [os.path.join(V, 'known_findings.json')]
    paths += [os.path.join(dd, f) for f in frag if f[:-5] not in LAST]
    paths += [os.path.join(dd, f) for f in frag if f[:-5] in LAST]
    report = dict(done=collections.Counter(), by_commit=collections.Counter(), no_commit=[], unknown=[], problems=[])
    for p in paths:
        tag = os.path.basename(p)[:-5]
        if (only and tag not in only) or (skip and tag in skip):
            continue
        n = process(p, dry, report)
        print('%-28s %s %d' % (os.path.relpath(p, V), 'would attribute' if dry else 'attributed', n))
    print('attributed per property:', ', '.join('%s=%d' % kv for kv in sorted(report['done'].items()) if kv[1]) or '-')
    for h, n in sorted(report['by_commit'].items(), key=lambda kv: (-kv[1], kv[0])):
        if n:
            print('  %s %3d  %s' % (h, n, subj[h][:110]))
    for rel, prop, key, why in report['no_commit']:
        print('NO COMMIT   %s %s | %s  -- %s' % (prop, rel, key, why))
    for rel, prop, key in report['unknown']:
        print('UNATTRIBUTED %s %s | %s' % (prop, rel, key))
    for p in report['problems']:
        print('PROBLEM', p)
    return 1 if report['problems'] else 0


if __name__ == '__main__':
    sys.exit(main())
